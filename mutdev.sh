#!/bin/bash
# developer helper: apply a patch in the scratch worktree /tmp/mutwt, build the harness against it, run lane-A checks
# usage: mutdev.sh patch.diff "C19 C16" [cases]
D=$1; PROPS=${2:-C19}; 
cd /tmp/mutwt && git checkout -q -- . && git clean -fdq && git apply $D || exit 9
/verif/dev.sh /tmp/mutwt > /tmp/vdev/build.out 2>&1 || { tail -20 /tmp/vdev/build.out; cd /tmp/mutwt && git checkout -q -- .; exit 2; }
cd /tmp/vdev && rm -rf replays
for P in $PROPS; do
  ./harness.bin run -prop $P -tier quick -seed ${SEED:-1} -workers 16 -inv inv.json ${3:+-cases $3} -replaydir /tmp/vdev/replays -known /verif/known_findings.json -scratch /tmp/vdev 2>&1 | grep -a -A2 "VIOLATION\|quick:\|ERROR\|STALL\|KNOWN" | cut -c1-400
done
cd /tmp/mutwt && git checkout -q -- .
