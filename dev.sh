#!/bin/bash
# developer helper (not a registered check): keeps an instrumented scratch copy in /tmp/vdev
# and rebuilds the harness there.   ./dev.sh [repo-dir]
export GOFLAGS=-mod=mod GOPROXY=off GOSUMDB=off GOTOOLCHAIN=local
V=/verif; R=${1:-/repo}; S=/tmp/vdev
rm -rf $S/repo; mkdir -p $S/repo $S/harness
rsync -a --exclude .git $R/ $S/repo/
(cd $V/sim/instr && go build -o $V/sim/bin/instr .) || exit 2
$V/sim/bin/instr -out $S/inv.json repo=$S/repo || exit 2
printf '\nrequire verif.local/simrt v0.0.0\n\nreplace verif.local/simrt => %s\n' $V/sim/simrt >> $S/repo/go.mod
rm -f $S/harness/*.go; cp $V/sim/harness/*.go $S/harness/
sed -e "s#@REPO@#$S/repo#" -e "s#@SIMRT@#$V/sim/simrt#" $V/sim/harness/go.mod.tmpl > $S/harness/go.mod
cp $R/go.sum $S/harness/go.sum
(cd $S/harness && go build -o $S/harness.bin .) && echo built $S/harness.bin || exit 2
if [ -n "${DEV_RACE:-}" ]; then (cd $S/harness && go build -race -o $S/laner.bin .) && echo built $S/laner.bin; fi
