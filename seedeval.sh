#!/bin/bash
# developer helper: confirm a seeded change (patch + demo) in the scratch worktree and run the registered checks on it.
# usage: seedeval.sh <srcdir with patch.diff,demo_test.go> <demo package dir> "<props>" [race]
export GOFLAGS=-mod=mod GOPROXY=off GOSUMDB=off GOTOOLCHAIN=local
SRC=$1; PKG=$2; PROPS=$3; RACE=${4:-}
W=/tmp/mutwt
cd $W && git checkout -q -- . && git clean -fdq
echo "--- demo WITHOUT patch (must pass)"
cp $SRC/demo_test.go $W/$PKG/zz_demo_test.go
(cd $W/$PKG && go test -vet=off -count=1 $RACE . 2>&1 | tail -3)
rm -f $W/$PKG/zz_demo_test.go
git apply $SRC/patch.diff || { echo "PATCH DOES NOT APPLY"; exit 9; }
echo "--- build + existing suite WITH patch (must pass)"
go build ./... && go test -vet=off -count=1 ./... 2>&1 | grep -v "no test files" | grep -v "^ok" | head -5
echo "--- demo WITH patch (must fail)"
cp $SRC/demo_test.go $W/$PKG/zz_demo_test.go
(cd $W/$PKG && go test -vet=off -count=1 $RACE . 2>&1 | grep -v "^\s*$" | tail -4 | cut -c1-200)
rm -f $W/$PKG/zz_demo_test.go
git checkout -q -- . && git clean -fdq
echo "--- registered checks on a scratch copy of /repo with the patch applied"
T=$(mktemp -d /tmp/seedeval.XXXX); mkdir -p $T/repo; rsync -a --exclude .git /repo/ $T/repo/
(cd $T/repo && git init -q . && git apply $SRC/patch.diff && rm -rf .git) || exit 9
for P in $PROPS; do (cd /verif && VERIF_EVIDENCE_DIR=$T/ev VERIF_REPLAY_DIR=$T/rp VERIF_REPO=$T/repo ./check $P quick 2>&1 | grep "VIOLATION\|clause=\|quick:\|ERROR\|KNOWN\|note" | cut -c1-260); done
rm -rf $T
