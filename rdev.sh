#!/bin/bash
# developer helper: lane R only against a patch.   rdev.sh patch.diff [laneR-cases]
D=$1
git -C /repo worktree list | grep -q /tmp/mutwt || git -C /repo worktree add -f --detach /tmp/mutwt HEAD >/dev/null 2>&1
cd /tmp/mutwt && git checkout -q -- . && git clean -fdq && { [ "$D" = none ] || git apply $D || exit 9; }
DEV_RACE=1 /verif/dev.sh /tmp/mutwt > /tmp/vdev/build.out 2>&1 || { tail -20 /tmp/vdev/build.out; cd /tmp/mutwt && git checkout -q -- .; exit 2; }
grep -q "built /tmp/vdev/laner.bin" /tmp/vdev/build.out || { tail -20 /tmp/vdev/build.out; exit 2; }
cd /tmp/vdev && rm -rf replays
VERIF_LANER_CASES=${2:-2400} ./harness.bin run -prop C19 -tier quick -seed ${SEED:-1} -workers 16 -inv inv.json -cases 1 -laner /tmp/vdev/laner.bin -replaydir /tmp/vdev/replays -known /verif/known_findings.json -scratch /tmp/vdev 2>&1 | grep -a -A2 "VIOLATION\|quick:\|ERROR\|STALL\|KNOWN\|note:" | cut -c1-600
cd /tmp/mutwt && git checkout -q -- . && git clean -fdq
