#!/bin/bash
# developer helper: run all three registered checks on a scratch copy of /repo with a property-PRESERVING patch; must stay silent
export GOFLAGS=-mod=mod GOPROXY=off GOSUMDB=off GOTOOLCHAIN=local
SRC=$1
T=$(mktemp -d /tmp/preseval.XXXX); mkdir -p $T/repo; rsync -a --exclude .git /repo/ $T/repo/
(cd $T/repo && git init -q . && git apply $SRC/patch.diff && rm -rf .git) || { echo "PATCH DOES NOT APPLY"; exit 9; }
(cd $T/repo && go build ./... && go test -vet=off -count=1 ./... 2>&1 | grep -v "no test files" | grep -v "^ok" | head -5)
for P in C14 C16 C19; do (cd /verif && VERIF_EVIDENCE_DIR=$T/ev VERIF_REPLAY_DIR=$T/rp VERIF_REPO=$T/repo ./check $P quick 2>&1 | grep "VIOLATION\|clause=\|quick:\|ERROR\|KNOWN\|note\|  " | cut -c1-300); done
mkdir -p /tmp/presrp; cp -r $T/rp/* /tmp/presrp/ 2>/dev/null
rm -rf $T
