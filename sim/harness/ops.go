package main

import (
	"fmt"
	"sort"
	"strconv"
	"strings"
	"unsafe"

	"github.com/trajectoryjp/spatial_id_go/v4/common"
	"github.com/trajectoryjp/spatial_id_go/v4/common/enum"
	"github.com/trajectoryjp/spatial_id_go/v4/common/object"
	"github.com/trajectoryjp/spatial_id_go/v4/common/spatial"
	"github.com/trajectoryjp/spatial_id_go/v4/detector"
	"github.com/trajectoryjp/spatial_id_go/v4/integrate"
	"github.com/trajectoryjp/spatial_id_go/v4/operated"
	"github.com/trajectoryjp/spatial_id_go/v4/shape"
	"github.com/trajectoryjp/spatial_id_go/v4/transform"
	"verif.local/simrt"
)

// QV describes one object.QuadkeyAndVerticalID.
type QV struct {
	QZoom   int64   `json:"qz"`
	Quadkey int64   `json:"q"`
	VZoom   int64   `json:"vz"`
	VIndex  int64   `json:"vi"`
	MaxH    float64 `json:"maxh"`
	MinH    float64 `json:"minh"`
}

// Call is the explicit, serialisable description of one library call: the replay file
// contains these, so replaying does not depend on the generator.
type Call struct {
	Op    string       `json:"op"`
	IDs   []string     `json:"ids,omitempty"`
	IDs2  []string     `json:"ids2,omitempty"`
	Ints  []int64      `json:"ints,omitempty"`
	Flts  []float64    `json:"flts,omitempty"`
	Bools []bool       `json:"bools,omitempty"`
	Pts   [][3]float64 `json:"pts,omitempty"`
	Tiles [][5]int64   `json:"tiles,omitempty"`
	QVs   []QV         `json:"qvs,omitempty"`
}

func (c *Call) clone() *Call {
	d := *c
	d.IDs = append([]string(nil), c.IDs...)
	d.IDs2 = append([]string(nil), c.IDs2...)
	d.Ints = append([]int64(nil), c.Ints...)
	d.Flts = append([]float64(nil), c.Flts...)
	d.Bools = append([]bool(nil), c.Bools...)
	d.Pts = append([][3]float64(nil), c.Pts...)
	d.Tiles = append([][5]int64(nil), c.Tiles...)
	d.QVs = append([]QV(nil), c.QVs...)
	return &d
}

// Args are the materialised Go values handed to the library. String lists get spare
// capacity filled with a sentinel so that writes through append are visible too.
type Args struct {
	IDs, IDs2       []string
	IDsBuf, IDs2Buf []string
	Pts             []*object.Point
	Tiles           []*object.TileXYZ
	QVs             []*object.QuadkeyAndVerticalID
	Ext             *object.ExtendedSpatialID
	BuildErr        string
}

const sentinel = "\x00verif-sentinel"

// Materializer builds Args. With Share set, identical content maps to the same Go object
// (same backing array, same *Point ...): that is how concurrent tasks get shared arguments.
type Materializer struct {
	Share bool
	lists map[string][2][]string
	pts   map[[3]float64]*object.Point
	tiles map[[5]int64]*object.TileXYZ
	qvs   map[QV]*object.QuadkeyAndVerticalID
	exts  map[string]*object.ExtendedSpatialID
}

func NewMaterializer(share bool) *Materializer {
	return &Materializer{Share: share, lists: map[string][2][]string{}, pts: map[[3]float64]*object.Point{},
		tiles: map[[5]int64]*object.TileXYZ{}, qvs: map[QV]*object.QuadkeyAndVerticalID{}, exts: map[string]*object.ExtendedSpatialID{}}
}

func (m *Materializer) list(l []string) (view, buf []string) {
	if l == nil {
		return nil, nil
	}
	key := strings.Join(l, "\x01")
	if m.Share {
		if v, ok := m.lists[key]; ok {
			return v[0], v[1]
		}
	}
	buf = make([]string, len(l)+3)
	copy(buf, l)
	for i := len(l); i < len(buf); i++ {
		buf[i] = sentinel
	}
	view = buf[:len(l)] // capacity deliberately larger than length
	registerInputBuf(buf)
	if m.Share {
		m.lists[key] = [2][]string{view, buf}
	}
	return view, buf
}

func (m *Materializer) Build(c *Call) *Args {
	a := &Args{}
	a.IDs, a.IDsBuf = m.list(c.IDs)
	a.IDs2, a.IDs2Buf = m.list(c.IDs2)
	for _, p := range c.Pts {
		if m.Share {
			if o, ok := m.pts[p]; ok {
				a.Pts = append(a.Pts, o)
				continue
			}
		}
		o, err := object.NewPoint(p[0], p[1], p[2])
		if err != nil {
			a.BuildErr = "NewPoint: " + err.Error()
		}
		m.pts[p] = o
		a.Pts = append(a.Pts, o)
	}
	for _, t := range c.Tiles {
		if m.Share {
			if o, ok := m.tiles[t]; ok {
				a.Tiles = append(a.Tiles, o)
				continue
			}
		}
		o, err := object.NewTileXYZ(t[0], t[1], t[2], t[3], t[4])
		if err != nil {
			a.BuildErr = "NewTileXYZ: " + err.Error()
			continue
		}
		m.tiles[t] = o
		a.Tiles = append(a.Tiles, o)
	}
	for _, q := range c.QVs {
		if m.Share {
			if o, ok := m.qvs[q]; ok {
				a.QVs = append(a.QVs, o)
				continue
			}
		}
		o := object.NewQuadkeyAndVerticalID(q.QZoom, q.Quadkey, q.VZoom, q.VIndex, q.MaxH, q.MinH)
		m.qvs[q] = o
		a.QVs = append(a.QVs, o)
	}
	if c.Op == "ext_to_sp" && len(c.IDs) > 0 {
		if o, ok := m.exts[c.IDs[0]]; ok && m.Share {
			a.Ext = o
		} else {
			o, err := object.NewExtendedSpatialID(c.IDs[0])
			if err != nil {
				a.BuildErr = "NewExtendedSpatialID: " + err.Error()
			}
			m.exts[c.IDs[0]] = o
			a.Ext = o
		}
	}
	return a
}

// Result of one call. Raw keeps the returned elements in returned order.
type Result struct {
	Raw   []string `json:"raw,omitempty"`
	Aux   string   `json:"aux,omitempty"`
	Err   string   `json:"err,omitempty"`
	Panic string   `json:"panic,omitempty"`
	// ErrLate is the text of the returned error rendered again when the run is over: a caller
	// may look at an error long after the call returned (C19: other calls have run meanwhile)
	ErrLate string `json:"err_late,omitempty"`
}

func (r *Result) String() string {
	return fmt.Sprintf("raw=%d%v aux=%q err=%q err_when_read_later=%q panic=%q", len(r.Raw), head(r.Raw, 6), r.Aux, r.Err, r.ErrLate, r.Panic)
}

func head(s []string, n int) []string {
	if len(s) <= n {
		return s
	}
	return append(append([]string{}, s[:n]...), "...")
}

// Fingerprint is the bit-exact rendering used where order matters (C19).
func (r *Result) Fingerprint() uint64 { return simrt.DeepHash(*r) }

// OpSpec describes one catalogue entry.
type OpSpec struct {
	Name  string
	Gen   func(g *Gen) *Call
	Exec  func(c *Call, a *Args) Result
	Lists []string // list arguments that may be permuted / have entries repeated
	Dedup bool     // result documented (function comment or given property) as duplicate-free
	// Canon maps a result to the set the property talks about (default: the raw elements).
	Canon func(r *Result) []string
	// Elems maps a result to the elements whose repetition is a duplicate (default: Raw).
	Elems  func(r *Result) []string
	SetOp  bool // belongs to C16's "set-valued operations"
	Weight int
}

// lastErr remembers, per simulated task, the error value of the call that just returned.
var lastErr = map[int]error{}

func errStr(e error) string {
	if t := simrt.CurTask(); t != nil {
		lastErr[t.ID] = e
	}
	if e == nil {
		return ""
	}
	s := e.Error()
	if s == "" {
		return "error"
	}
	return s
}

func guard(f func() Result) (res Result) {
	defer func() {
		if r := recover(); r != nil {
			res = Result{Panic: fmt.Sprint(r)}
		}
	}()
	return f()
}

// The harness plays a caller that OWNS what a call returns: after copying a result it
// overwrites the returned slice / objects. A library that hands out memory it keeps using
// (an internal cache entry returned without a copy, a pooled buffer) then corrupts its own
// later answers, which the comparison with the reference / solo result shows. Results that
// alias an input argument (a legal fast path such as `return ids, nil`) are left alone:
// writing to them would be the harness, not the library, modifying the caller's input.
const scribble = "<scribbled-by-the-caller>"

var inputBufs [][2]uintptr

func registerInputBuf(b []string) {
	if len(b) > 0 {
		lo := uintptr(unsafe.Pointer(unsafe.SliceData(b)))
		inputBufs = append(inputBufs, [2]uintptr{lo, lo + uintptr(cap(b))*unsafe.Sizeof(b[0])})
	}
}

func resetInputBufs() { inputBufs = inputBufs[:0] }

func aliasesInput(ids []string) bool {
	if cap(ids) == 0 {
		return true
	}
	p := uintptr(unsafe.Pointer(unsafe.SliceData(ids)))
	for _, r := range inputBufs {
		if p >= r[0] && p < r[1] {
			return true
		}
	}
	return false
}

func scribbleStrings(ids []string) {
	if noScribble || aliasesInput(ids) {
		return
	}
	for i := range ids {
		ids[i] = scribble
	}
}

func strs(ids []string, err error) Result {
	r := Result{Raw: append([]string(nil), ids...), Err: errStr(err)}
	scribbleStrings(ids)
	return r
}

func qvGroups(gs []*object.FromExtendedSpatialIDToQuadkeyAndVerticalID, err error) Result {
	r := Result{Err: errStr(err)}
	for _, g := range gs {
		var b strings.Builder
		fmt.Fprintf(&b, "P qz=%d vz=%d maxh=%s minh=%s|", g.QuadkeyZoom(), g.VerticalZoom(), fmtF(g.MaxHeight()), fmtF(g.MinHeight()))
		for _, p := range g.InnerIDList() {
			fmt.Fprintf(&b, "%d,%d;", p[0], p[1])
		}
		r.Raw = append(r.Raw, b.String())
	}
	for _, g := range gs { // the caller owns the returned objects
		if g != nil && !noScribble {
			in := g.InnerIDList()
			for i := range in {
				in[i] = [2]int64{-1, -1}
			}
			g.SetQuadkeyZoom(-7)
		}
	}
	return r
}

func qaGroups(gs []*object.FromExtendedSpatialIDToQuadkeyAndAltitudekey, err error) Result {
	r := Result{Err: errStr(err)}
	for _, g := range gs {
		var b strings.Builder
		fmt.Fprintf(&b, "P qz=%d az=%d exp=%d off=%d|", g.QuadkeyZoom(), g.AltitudekeyZoom(), g.ZBaseExponent(), g.ZBaseOffset())
		for _, p := range g.InnerIDList() {
			fmt.Fprintf(&b, "%d,%d;", p[0], p[1])
		}
		r.Raw = append(r.Raw, b.String())
	}
	for _, g := range gs {
		if g != nil && !noScribble {
			in := g.InnerIDList()
			for i := range in {
				in[i] = [2]int64{-1, -1}
			}
			g.SetQuadkeyZoom(-7)
		}
	}
	return r
}

// groupPairs: the (quadkey, vertical) pairs over all groups
func groupPairs(r *Result) []string {
	var out []string
	for _, g := range r.Raw {
		i := strings.IndexByte(g, '|')
		if i < 0 {
			continue
		}
		for _, p := range strings.Split(g[i+1:], ";") {
			if p != "" {
				out = append(out, p)
			}
		}
	}
	return out
}

// groupCanon: union of pairs plus the distinct parameter tuples
func groupCanon(r *Result) []string {
	out := groupPairs(r)
	for _, g := range r.Raw {
		if i := strings.IndexByte(g, '|'); i >= 0 {
			out = append(out, g[:i])
		}
	}
	return out
}

func canonSet(spec *OpSpec, r *Result) []string {
	var el []string
	if spec.Canon != nil {
		el = spec.Canon(r)
	} else {
		el = r.Raw
	}
	set := map[string]struct{}{}
	for _, e := range el {
		set[e] = struct{}{}
	}
	out := make([]string, 0, len(set))
	for e := range set {
		out = append(out, e)
	}
	sort.Strings(out)
	return out
}

func dupOf(spec *OpSpec, r *Result) string {
	el := r.Raw
	if spec.Elems != nil {
		el = spec.Elems(r)
	}
	seen := map[string]struct{}{}
	for _, e := range el {
		if _, ok := seen[e]; ok {
			return e
		}
		seen[e] = struct{}{}
	}
	return ""
}

var catalogue []*OpSpec
var opByName = map[string]*OpSpec{}

func reg(o *OpSpec) {
	if o.Weight == 0 {
		o.Weight = 10
	}
	catalogue = append(catalogue, o)
	opByName[o.Name] = o
}

func i64(c *Call, i int) int64 {
	if i < len(c.Ints) {
		return c.Ints[i]
	}
	return 0
}
func f64(c *Call, i int) float64 {
	if i < len(c.Flts) {
		return c.Flts[i]
	}
	return 0
}
func first(s []string) string {
	if len(s) > 0 {
		return s[0]
	}
	return ""
}

// expansion size of a zoom change, to bound cost
func zoomChangeSize(ids []string, hz, vz int64) int64 {
	var tot int64
	for _, id := range ids {
		a := parseInts(id)
		n := int64(1)
		if hz > a[0] {
			n *= pow2(2 * (hz - a[0]))
		}
		if vz > a[3] {
			n *= pow2(vz - a[3])
		}
		tot += n
		if tot > 1<<40 {
			return tot
		}
	}
	return tot
}

func init() {
	// ---- zoom change ----
	reg(&OpSpec{Name: "change_ext_zoom", SetOp: true, Dedup: true, Lists: []string{"ids"}, Weight: 14,
		Gen: func(g *Gen) *Call {
			for {
				hz, vz := g.zoom(1, 30), g.zoom(1, 30)
				ids := g.mixedList(hz, vz, g.n(8), 2)
				th, tv := hz+g.R.Range(-4, 3), vz+g.R.Range(-4, 4)
				th, tv = max64(0, min64(35, th)), max64(0, min64(35, tv))
				if h := g.huge() + g.vast(); h > 0 && hz >= 6 {
					ids = g.cluster(hz, vz, h)
					th, tv = max64(0, hz-g.R.Range(0, 2)), max64(0, vz-g.R.Range(0, 2))
				}
				if g.R.Chance(1, 4) && len(ids) > 1 {
					ids = append(ids, ids[g.R.Intn(len(ids))])
				}
				if zoomChangeSize(ids, th, tv) <= g.cap(3000) {
					return &Call{Op: "change_ext_zoom", IDs: ids, Ints: []int64{th, tv}}
				}
			}
		},
		Exec: func(c *Call, a *Args) Result {
			return strs(integrate.ChangeExtendedSpatialIdsZoom(a.IDs, i64(c, 0), i64(c, 1)))
		}})
	reg(&OpSpec{Name: "change_zoom", SetOp: true, Dedup: true, Lists: []string{"ids"},
		Gen: func(g *Gen) *Call {
			for {
				z := g.zoom(1, 28)
				ext := g.cluster(z, z, g.n(8))
				if g.R.Chance(1, 3) {
					ext = append(ext, g.cluster(z+1, z+1, g.n(3))...)
				}
				tz := max64(0, min64(35, z+g.R.Range(-4, 2)))
				if zoomChangeSize(ext, tz, tz) <= g.cap(3000) {
					ids := make([]string, len(ext))
					for i, e := range ext {
						ids[i] = extToSp(e)
					}
					return &Call{Op: "change_zoom", IDs: ids, Ints: []int64{tz}}
				}
			}
		},
		Exec: func(c *Call, a *Args) Result { return strs(integrate.ChangeSpatialIdsZoom(a.IDs, i64(c, 0))) }})

	// ---- merge ----
	genMerge := func(g *Gen, sp bool) *Call {
		hz, vz := g.zoom(1, 28), g.zoom(1, 28)
		if sp {
			vz = hz
		}
		m := pow2(hz)
		px, py, pz := g.R.Range(0, m-1), g.R.Range(0, m-1), g.vIndex(vz)
		var ids []string
		np := 1 + g.R.Intn(3)
		if g.R.Chance(1, 15) {
			np = 6 + g.R.Intn(10) // many parent groups (with a two-level gap somewhere: several thousand unit cells)
		}
		for i := 0; i < np; i++ {
			keep := 9
			if g.R.Chance(1, 2) {
				keep = 10 // complete group: merge fires
			}
			sib := g.siblings(hz, mod(px+int64(i), m), py, vz, pz, keep, 10)
			// sometimes replace one child by its own 8 children (finer input, bigger unit division)
			if len(sib) > 0 && (g.R.Chance(1, 4) || np >= 6 && i == 0) && hz+2 <= 35 && vz+2 <= 35 {
				j := g.R.Intn(len(sib))
				a := parseInts(sib[j])
				sib = append(sib[:j], sib[j+1:]...)
				kids := g.siblings(a[0], a[1], a[2], a[3], a[4], 19, 20)
				// ... and sometimes one of those by its children again: a two-level gap, so that the
				// coarse siblings are each divided into 64 unit cells
				if len(kids) > 0 && g.R.Chance(1, 2) && hz+3 <= 35 && vz+3 <= 35 {
					k := g.R.Intn(len(kids))
					b := parseInts(kids[k])
					kids = append(kids[:k], kids[k+1:]...)
					kids = append(kids, g.siblings(b[0], b[1], b[2], b[3], b[4], 19, 20)...)
				}
				sib = append(sib, kids...)
			}
			ids = append(ids, sib...)
		}
		if g.R.Chance(1, 3) { // coarser bystanders pass through unchanged
			ids = append(ids, extID(max64(0, hz-1), (px>>1)%max64(1, pow2(max64(0, hz-1))), (py>>1)%max64(1, pow2(max64(0, hz-1))), max64(0, vz-1), pz>>1))
		}
		if len(ids) == 0 {
			ids = g.cluster(hz+1, vz+1, 2)
		}
		g.shuffleStrings(ids)
		th, tv := hz, vz
		switch g.R.Intn(10) {
		case 0:
			th, tv = hz+1, vz+1
		case 1:
			th, tv = max64(0, hz-1), max64(0, vz-1)
		case 2: // finer than every input: nothing is a merge candidate, everything passes through
			d := g.R.Range(2, 4)
			th, tv = min64(35, hz+d), min64(35, vz+d)
		case 3: // candidates on one axis only
			th = min64(35, hz+2)
		}
		if g.R.Chance(1, 3) && len(ids) > 1 { // repeated entries already in the base list
			for k := 1 + g.R.Intn(2); k > 0; k-- {
				ids = append(ids, ids[g.R.Intn(len(ids))])
			}
			g.shuffleStrings(ids)
		}
		if sp {
			out := make([]string, len(ids))
			for i, e := range ids {
				out[i] = extToSp(e)
			}
			return &Call{Op: "merge", IDs: out, Ints: []int64{th}}
		}
		return &Call{Op: "merge_ext", IDs: ids, Ints: []int64{th, tv}}
	}
	reg(&OpSpec{Name: "merge_ext", SetOp: true, Dedup: true, Lists: []string{"ids"}, Weight: 14,
		Gen: func(g *Gen) *Call { return genMerge(g, false) },
		Exec: func(c *Call, a *Args) Result {
			return strs(integrate.MergeExtendedSpatialIds(a.IDs, i64(c, 0), i64(c, 1)))
		}})
	reg(&OpSpec{Name: "merge", SetOp: true, Dedup: true, Lists: []string{"ids"},
		Gen:  func(g *Gen) *Call { return genMerge(g, true) },
		Exec: func(c *Call, a *Args) Result { return strs(integrate.MergeSpatialIds(a.IDs, i64(c, 0))) }})

	// ---- line ----
	genLine := func(g *Gen, op string) *Call {
		sc := genSegment(g, 40, op == "line")
		c := &Call{Op: op, Pts: [][3]float64{sc.start, sc.end}, Ints: []int64{sc.hz, sc.vz}}
		if op == "line" {
			c.Ints = []int64{sc.hz}
		}
		return c
	}
	reg(&OpSpec{Name: "line_ext", SetOp: true, Dedup: true,
		Gen: func(g *Gen) *Call { return genLine(g, "line_ext") },
		Exec: func(c *Call, a *Args) Result {
			return strs(shape.GetExtendedSpatialIdsOnLine(a.Pts[0], a.Pts[1], i64(c, 0), i64(c, 1)))
		}})
	reg(&OpSpec{Name: "line", SetOp: true, Dedup: true, Weight: 6,
		Gen:  func(g *Gen) *Call { return genLine(g, "line") },
		Exec: func(c *Call, a *Args) Result { return strs(shape.GetSpatialIdsOnLine(a.Pts[0], a.Pts[1], i64(c, 0))) }})

	// ---- corridor ----
	reg(&OpSpec{Name: "corridor", SetOp: true, Dedup: true, Weight: 16,
		Gen: func(g *Gen) *Call {
			sc := genCorridor(g, 25, 2.2)
			return &Call{Op: "corridor", Pts: [][3]float64{sc.start, sc.end}, Flts: []float64{sc.radius}, Ints: []int64{sc.hz, sc.vz}, Bools: []bool{g.R.Bool()}}
		},
		Exec: func(c *Call, a *Args) Result {
			return strs(transform.GetExtendedSpatialIdsWithinRadiusOfLine(a.Pts[0], a.Pts[1], f64(c, 0), i64(c, 0), i64(c, 1), len(c.Bools) > 0 && c.Bools[0]))
		}})

	// ---- neighbourhoods ----
	genOne := func(op string) func(g *Gen) *Call {
		return func(g *Gen) *Call {
			hz, vz := g.zoom(0, 35), g.zoom(0, 35)
			return &Call{Op: op, IDs: g.cluster(hz, vz, 1)}
		}
	}
	reg(&OpSpec{Name: "n6", SetOp: true, Weight: 4, Gen: genOne("n6"),
		Exec: func(c *Call, a *Args) Result { return strs(operated.Get6spatialIdsAdjacentToFaces(first(a.IDs)), nil) }})
	reg(&OpSpec{Name: "n8", SetOp: true, Weight: 4, Gen: genOne("n8"),
		Exec: func(c *Call, a *Args) Result { return strs(operated.Get8spatialIdsAroundHorizontal(first(a.IDs)), nil) }})
	reg(&OpSpec{Name: "n26", SetOp: true, Weight: 4, Gen: genOne("n26"),
		Exec: func(c *Call, a *Args) Result { return strs(operated.Get26spatialIdsAroundVoxel(first(a.IDs)), nil) }})
	reg(&OpSpec{Name: "nlayer", SetOp: true, Dedup: true, Lists: []string{"ids"}, Weight: 12,
		Gen: func(g *Gen) *Call {
			hz, vz := g.zoom(0, 35), g.zoom(0, 35)
			h, v := g.R.Range(0, 2), g.R.Range(0, 2)
			ids := g.cluster(hz, vz, g.n(6))
			if g.R.Chance(1, 3) && hz >= 2 && hz <= 33 && vz >= 2 && vz <= 33 {
				ids = g.mixedList(hz, vz, g.n(6), 2) // lists mixing zooms
				g.shuffleStrings(ids)
			}
			if len(ids) > 30 {
				h, v = min64(h, 1), min64(v, 1)
			}
			return &Call{Op: "nlayer", IDs: ids, Ints: []int64{h, v}}
		},
		Exec: func(c *Call, a *Args) Result {
			return strs(operated.GetNspatialIdsAroundVoxcels(a.IDs, i64(c, 0), i64(c, 1)))
		}})

	// ---- overlap ----
	boolRes := func(b bool, err error) Result { return Result{Aux: strconv.FormatBool(b), Err: errStr(err)} }
	boolCanon := func(r *Result) []string { return []string{r.Aux, fmt.Sprint(r.Err != "")} }
	genExtPairLists := func(g *Gen) ([]string, []string) {
		hz, vz := g.zoom(1, 30), g.zoom(1, 30)
		n1, n2 := g.n(5), g.n(5)
		if g.R.Chance(1, 10) {
			// both lists long at once: a pair count above a few hundred is where an implementation
			// would start to split the work
			n1, n2 = 10+g.R.Intn(30), 10+g.R.Intn(30)
		}
		l1 := g.mixedList(hz, vz, n1, 3)
		var l2 []string
		if g.R.Chance(1, 2) && n1 < 10 {
			// related to l1: ancestors / descendants / neighbours of its members
			for _, id := range l1 {
				a := parseInts(id)
				dh, dv := g.R.Range(0, min64(3, a[0])), g.R.Range(0, min64(3, a[3]))
				x, y, z := a[1]>>uint(dh), a[2]>>uint(dh), a[4]>>uint(dv)
				if g.R.Chance(1, 2) {
					x = mod(x+g.R.Range(-1, 1), pow2(a[0]-dh))
				}
				l2 = append(l2, extID(a[0]-dh, x, y, a[3]-dv, z))
			}
		} else {
			l2 = g.mixedList(hz, vz, n2, 3)
		}
		return l1, l2
	}
	reg(&OpSpec{Name: "overlap_ext", SetOp: true, Canon: boolCanon, Weight: 6,
		Gen: func(g *Gen) *Call {
			l1, l2 := genExtPairLists(g)
			return &Call{Op: "overlap_ext", IDs: l1[:1], IDs2: l2[:1]}
		},
		Exec: func(c *Call, a *Args) Result {
			return boolRes(detector.CheckExtendedSpatialIdsOverlap(first(a.IDs), first(a.IDs2)))
		}})
	reg(&OpSpec{Name: "overlap_ext_arr", SetOp: true, Canon: boolCanon, Lists: []string{"ids", "ids2"},
		Gen: func(g *Gen) *Call {
			l1, l2 := genExtPairLists(g)
			if g.R.Chance(1, 8) {
				l2 = append([]string{}, l1...) // the same list on both sides
			}
			return &Call{Op: "overlap_ext_arr", IDs: l1, IDs2: l2}
		},
		Exec: func(c *Call, a *Args) Result {
			return boolRes(detector.CheckExtendedSpatialIdsArrayOverlap(a.IDs, a.IDs2))
		}})
	// radix-tree overlap: the generator keeps only IDs whose single-ID self check returns
	// without error (library used as a domain filter, never as its own oracle)
	spOK := func(id string) bool {
		ok := false
		func() {
			defer func() { recover() }()
			_, err := detector.CheckSpatialIdsOverlap(id, id)
			ok = err == nil
		}()
		return ok
	}
	genSpLists := func(g *Gen) ([]string, []string) {
		for {
			l1, l2 := genExtPairLists(g)
			conv := func(l []string) []string {
				var out []string
				for _, e := range l {
					a := parseInts(e)
					z := min64(a[0], 26)
					id := spID(z, a[4]%pow2(min64(z, 20)), a[1]%pow2(z), a[2]%pow2(z))
					if spOK(id) {
						out = append(out, id)
					}
				}
				return out
			}
			a, b := conv(l1), conv(l2)
			if len(a) > 0 && len(b) > 0 {
				return a, b
			}
		}
	}
	reg(&OpSpec{Name: "overlap_sp", SetOp: true, Canon: boolCanon, Weight: 6,
		Gen: func(g *Gen) *Call {
			a, b := genSpLists(g)
			return &Call{Op: "overlap_sp", IDs: a[:1], IDs2: b[:1]}
		},
		Exec: func(c *Call, a *Args) Result {
			return boolRes(detector.CheckSpatialIdsOverlap(first(a.IDs), first(a.IDs2)))
		}})
	reg(&OpSpec{Name: "overlap_sp_arr", SetOp: true, Canon: boolCanon, Lists: []string{"ids", "ids2"},
		Gen: func(g *Gen) *Call {
			a, b := genSpLists(g)
			if g.R.Chance(1, 8) {
				b = append([]string{}, a...)
			}
			if g.R.Chance(1, 10) {
				// more than a thousand distinct IDs in one call, none overlapping (so both lists are
				// walked to the end): the size at which a bounded per-ID memo or parse cache starts
				// to recycle entries while a sibling call still reads them; linear cost
				z := g.R.Range(14, 24)
				n := int64(1100 + g.R.Intn(4000))
				n1 := n * g.R.Range(2, 8) / 10
				f, x0, y := g.R.Range(0, 40), g.R.Range(0, pow2(z)-n-1), g.R.Range(0, pow2(z)-1)
				a, b = nil, nil
				for i := int64(0); i < n; i++ {
					if id := spID(z, f, x0+i, y); i < n1 {
						a = append(a, id)
					} else {
						b = append(b, id)
					}
				}
			}
			return &Call{Op: "overlap_sp_arr", IDs: a, IDs2: b}
		},
		Exec: func(c *Call, a *Args) Result { return boolRes(detector.CheckSpatialIdsArrayOverlap(a.IDs, a.IDs2)) }})

	// ---- key conversions ----
	genToQV := func(g *Gen, sp bool) *Call {
		for {
			hz, vz := g.zoom(1, 28), g.zoom(1, 25)
			if sp {
				vz = hz
			}
			var ids []string
			if sp {
				ids = g.cluster(hz, hz, g.n(6))
			} else {
				ids = g.mixedList(hz, vz, g.n(6), 2)
			}
			oh := max64(1, min64(31, hz+g.R.Range(-3, 2)))
			ov := max64(0, min64(35, vz+g.R.Range(-3, 3)))
			var maxH, minH float64
			if g.R.Chance(1, 2) {
				// height-range mode: binary subdivision of [minH,maxH)
				minH = float64(g.R.Range(-4, 0)) * 256
				maxH = minH + float64(pow2(g.R.Range(8, 14)))
				ov = g.R.Range(1, 12)
			}
			bad := false
			for _, id := range ids {
				if a := parseInts(id); a[0] > 31 {
					bad = true
				}
			}
			if bad || zoomChangeSize(ids, oh, ov) > g.cap(2000) {
				continue
			}
			c := &Call{Op: "ext_to_qv", IDs: ids, Ints: []int64{oh, ov}, Flts: []float64{maxH, minH}}
			if sp {
				c.Op = "sp_to_qv"
				for i, e := range ids {
					c.IDs[i] = extToSp(e)
				}
			}
			return c
		}
	}
	reg(&OpSpec{Name: "ext_to_qv", SetOp: true, Dedup: true, Lists: []string{"ids"}, Canon: groupCanon, Elems: groupPairs, Weight: 12,
		Gen: func(g *Gen) *Call { return genToQV(g, false) },
		Exec: func(c *Call, a *Args) Result {
			return qvGroups(transform.ConvertExtendedSpatialIDsToQuadkeysAndVerticalIDs(a.IDs, i64(c, 0), i64(c, 1), f64(c, 0), f64(c, 1)))
		}})
	reg(&OpSpec{Name: "sp_to_qv", SetOp: true, Dedup: true, Lists: []string{"ids"}, Canon: groupCanon, Elems: groupPairs, Weight: 6,
		Gen: func(g *Gen) *Call { return genToQV(g, true) },
		Exec: func(c *Call, a *Args) Result {
			return qvGroups(transform.ConvertSpatialIDsToQuadkeysAndVerticalIDs(a.IDs, i64(c, 0), i64(c, 1), f64(c, 0), f64(c, 1)))
		}})
	reg(&OpSpec{Name: "ext_to_qalt", SetOp: true, Dedup: true, Lists: []string{"ids"}, Canon: groupCanon, Elems: groupPairs,
		Gen: func(g *Gen) *Call {
			for {
				hz, vz := g.zoom(1, 28), g.zoom(18, 30)
				ids := g.mixedList(hz, vz, g.n(6), 2)
				oq := max64(1, min64(31, hz+g.R.Range(-3, 2)))
				exp := g.R.Range(20, 28)
				oa := exp + g.R.Range(-4, 2)
				off := g.R.Range(0, 64)
				if g.R.Chance(1, 3) {
					off = pow2(exp - 1)
				}
				bad := false
				for _, id := range ids {
					a := parseInts(id)
					if a[0] > 31 || oa-a[3] > 6 {
						bad = true
					}
				}
				if bad || oa < 0 || oa > 35 || zoomChangeSize(ids, oq, 0) > g.cap(400) {
					continue
				}
				return &Call{Op: "ext_to_qalt", IDs: ids, Ints: []int64{oq, oa, exp, off}}
			}
		},
		Exec: func(c *Call, a *Args) Result {
			return qaGroups(transform.ConvertExtendedSpatialIDsToQuadkeysAndAltitudekeys(a.IDs, i64(c, 0), i64(c, 1), i64(c, 2), i64(c, 3)))
		}})
	genQVs := func(g *Gen) []QV {
		qz, vz := g.zoom(1, 20), g.zoom(1, 20)
		n := g.n(6)
		base := g.R.Range(0, pow2(2*qz)-1)
		rangeMode := g.R.Chance(1, 2)
		mixedQ := g.R.Chance(1, 3)
		var out []QV
		for i := 0; i < n; i++ {
			q := QV{QZoom: qz, Quadkey: mod(base+g.R.Range(-2, 2), pow2(2*qz)), VZoom: vz, VIndex: g.R.Range(0, min64(pow2(vz)-1, 6))}
			if mixedQ && qz > 1 && vz > 1 {
				// ancestors of the base cell: different zooms covering the same space
				dq, dv := g.R.Range(0, 1), g.R.Range(0, 1)
				q.QZoom, q.Quadkey = qz-dq, q.Quadkey>>uint(2*dq)
				q.VZoom, q.VIndex = vz-dv, q.VIndex>>uint(dv)
			}
			if rangeMode {
				q.MinH, q.MaxH = 0, float64(pow2(g.R.Range(6, 12)))
			} else if g.R.Chance(1, 3) {
				q.VIndex = -g.R.Range(1, 4)
			}
			out = append(out, q)
		}
		return out
	}
	genFromQV := func(op string) func(g *Gen) *Call {
		return func(g *Gen) *Call {
			for {
				qvs := genQVs(g)
				oh := max64(0, min64(35, qvs[0].QZoom+g.R.Range(-2, 2)))
				ov := max64(0, min64(35, qvs[0].VZoom+g.R.Range(-2, 3)))
				rangeMode := qvs[0].MaxH > qvs[0].MinH
				if op == "qv_to_sp" {
					ov = oh
				}
				// bound the expansion: 4^(oh-qz) horizontally, 2^(ov-vz) vertically (index mode)
				// or height span / output voxel height (height-range mode)
				size := float64(len(qvs)) * float64(pow2(2*max64(0, oh-qvs[0].QZoom)))
				if rangeMode {
					size *= 1 + (qvs[0].MaxH-qvs[0].MinH)/float64(pow2(qvs[0].VZoom))/(float64(pow2(25))/float64(pow2(ov)))
				} else {
					size *= float64(pow2(max64(0, ov-qvs[0].VZoom)))
				}
				if size > float64(g.cap(3000)) {
					continue
				}
				if op == "qv_to_sp" {
					return &Call{Op: op, QVs: qvs, Ints: []int64{oh}}
				}
				return &Call{Op: op, QVs: qvs, Ints: []int64{oh, ov}}
			}
		}
	}
	reg(&OpSpec{Name: "qv_to_ext", SetOp: true, Lists: []string{"qvs"}, Gen: genFromQV("qv_to_ext"),
		Exec: func(c *Call, a *Args) Result {
			return strs(transform.ConvertQuadkeysAndVerticalIDsToExtendedSpatialIDs(a.QVs, i64(c, 0), i64(c, 1)))
		}})
	reg(&OpSpec{Name: "qv_to_sp", SetOp: true, Lists: []string{"qvs"}, Weight: 6, Gen: genFromQV("qv_to_sp"),
		Exec: func(c *Call, a *Args) Result {
			return strs(transform.ConvertQuadkeysAndVerticalIDsToSpatialIDs(a.QVs, i64(c, 0)))
		}})

	// ---- tiles ----
	genTiles := func(op string) func(g *Gen) *Call {
		return func(g *Gen) *Call {
			hz := g.zoom(0, 30)
			exp := g.R.Range(20, 28)
			tvz := exp + g.R.Range(-3, 2)
			ovz := 25 + g.R.Range(-3, 1+(tvz-exp))
			ovz = max64(0, min64(35, ovz))
			off := g.R.Range(0, 16)
			if g.R.Chance(1, 3) {
				off = pow2(exp - 1)
			}
			if op == "tiles_to_sp" {
				// the spatial-ID expansion is 4^(vz-hz) or 2^(hz-vz) per ID: keep it small
				hz = max64(0, min64(35, ovz+g.R.Range(-3, 5)))
			}
			m := pow2(hz)
			bx, by := g.R.Range(0, m-1), g.R.Range(0, m-1)
			bz := off>>uint(max64(0, exp-tvz)) + g.R.Range(0, 8)
			n := g.n(6)
			if g.R.Chance(1, 25) {
				n = 27 + g.R.Intn(120) // a block of tiles, several columns and rows, overlapping heights
			}
			if v := g.vast(); v > 0 && op == "tiles_to_ext" {
				n = v
			}
			var ts [][5]int64
			mixed := g.R.Chance(1, 3) && hz >= 2 && hz <= 33
			for i := 0; i < n; i++ {
				z := max64(0, min64(pow2(tvz)-1, bz+g.R.Range(-2, 2)))
				if mixed {
					// tiles of different horizontal zoom whose x/y/z numbers coincide
					h := hz + g.R.Range(0, 2)
					ts = append(ts, [5]int64{h, mod(bx, 4) + g.R.Range(0, 1), mod(by, 4) + g.R.Range(0, 1), tvz, max64(0, min64(pow2(tvz)-1, bz+g.R.Range(0, 1)))})
					continue
				}
				w := int64(1)
				if n > 20 {
					w = 3
				}
				if n > 1000 {
					w = 30
				}
				ts = append(ts, [5]int64{hz, mod(bx+g.R.Range(-w, w), m), mod(by+g.R.Range(-w, w), m), tvz, z})
			}
			if g.R.Chance(1, 4) && len(ts) > 1 {
				ts = append(ts, ts[g.R.Intn(len(ts))])
			}
			return &Call{Op: op, Tiles: ts, Ints: []int64{exp, off, ovz}}
		}
	}
	extObjs := func(ids []object.ExtendedSpatialID, err error) Result {
		r := Result{Err: errStr(err)}
		for _, e := range ids {
			r.Raw = append(r.Raw, e.ID())
		}
		for i := range ids {
			if noScribble {
				break
			}
			ids[i].SetX(-1)
			ids[i].SetZoom(-1, -1)
		}
		return r
	}
	reg(&OpSpec{Name: "tiles_to_ext", SetOp: true, Dedup: true, Lists: []string{"tiles"}, Weight: 12, Gen: genTiles("tiles_to_ext"),
		Exec: func(c *Call, a *Args) Result {
			return extObjs(transform.ConvertTileXYZsToExtendedSpatialIDs(a.Tiles, i64(c, 0), i64(c, 1), i64(c, 2)))
		}})
	reg(&OpSpec{Name: "tiles_to_sp", SetOp: true, Lists: []string{"tiles"}, Gen: genTiles("tiles_to_sp"),
		Exec: func(c *Call, a *Args) Result {
			return strs(transform.ConvertTileXYZsToSpatialIDs(a.Tiles, i64(c, 0), i64(c, 1), i64(c, 2)))
		}})
	reg(&OpSpec{Name: "ext_to_sp", SetOp: true, Dedup: true, Weight: 5,
		Gen: func(g *Gen) *Call {
			hz := g.zoom(0, 30)
			vz := max64(0, min64(35, hz+g.R.Range(-4, 4)))
			return &Call{Op: "ext_to_sp", IDs: g.cluster(hz, vz, 1)}
		},
		Exec: func(c *Call, a *Args) Result { return strs(transform.ConvertExtendedSpatialIDToSpatialIDs(a.Ext), nil) }})

	// ---- notation conversions on lists (C16 d: inputs untouched; a: repeatable) ----
	reg(&OpSpec{Name: "sp_to_ext_list", SetOp: true, Weight: 4,
		Gen: func(g *Gen) *Call {
			z := g.zoom(0, 35)
			n := g.n(6)
			if v := g.vast(); v > 0 && z >= 8 {
				n = v
			}
			ext := g.cluster(z, z, n)
			for i := range ext {
				ext[i] = extToSp(ext[i])
			}
			return &Call{Op: "sp_to_ext_list", IDs: ext}
		},
		Exec: func(c *Call, a *Args) Result { return strs(shape.ConvertSpatialIdsToExtendedSpatialIds(a.IDs)) }})
	reg(&OpSpec{Name: "ext_to_sp_list", SetOp: true, Weight: 4,
		Gen: func(g *Gen) *Call {
			z := g.zoom(0, 35)
			n := g.n(6)
			if v := g.vast(); v > 0 && z >= 8 {
				n = v
			}
			return &Call{Op: "ext_to_sp_list", IDs: g.cluster(z, z, n)}
		},
		Exec: func(c *Call, a *Args) Result { return strs(shape.ConvertExtendedSpatialIdsToSpatialIds(a.IDs)) }})

	registerC19Ops()
}

// keep imports used even if a section is edited out
var _ = enum.Vertex
var _ = spatial.Point3{}
var _ = common.AlmostEqual
