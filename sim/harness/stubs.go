package main

import "encoding/json"

func registerC19Ops()                                              {}
func (w *Worker) runC19Case(idx int64)                             {}
func replayC19(raw json.RawMessage) (string, string, error)        { return "", "", nil }
func laneBMain(args []string) int                                  { return 0 }
func runLaneB(f *commonFlags, scratch string) (map[string]any, []*Violation, int) { return nil, nil, 0 }
