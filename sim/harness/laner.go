package main

import (
	"bytes"
	"encoding/json"
	"flag"
	"fmt"
	"os"
	"os/exec"
	"path/filepath"
	"regexp"
	"sort"
	"strings"
	"sync"
	"syscall"
	"time"

	"verif.local/simrt"
)

// Lane R: the simulated scheduler inside a race-detector build of the INSTRUMENTED library.
//
// The simulator decides the interleaving exactly as in lane A (one task runs at a time,
// preemptions at task-local yield indices, recorded and replayed as an explicit list); the Go
// race detector decides whether two accesses were ordered. The hand-off between tasks is
// invisible to the detector (raw pipe system calls), the sync shims perform the simulated
// operation and then the real one, so that the happens-before relation the detector sees is
// exactly the one the library's own synchronisation creates. This replaces the hand-written
// vector-clock monitor lane A had: whatever the library protects its state with - a mutex per
// entry, stripes, nested arrays of shards, Once values in a map, atomics - is judged by the
// detector's model of the real primitives, not by a model of mine.

type laneRReplay struct {
	Lane   string                `json:"lane"` // "R"
	Tasks  []C19Task             `json:"tasks"`
	Sched  []simrt.SchedDecision `json:"schedule"`
	Clause string                `json:"clause"`
}

// noScribble: in lane R the harness does not overwrite what a call returned (that write would
// be the harness's, and the detector would attribute it to the run).
var noScribble bool

type rRun struct {
	results  [][]Result
	yields   []int
	acc      []int
	rs       *simrt.RSched
	stalled  bool
	deadlock bool
	overrun  bool
	overflow bool
	unowned  bool
	leftover int
	race     string
}

var raceLog *os.File

func raceLogInit(path string) error {
	f, err := os.Create(path)
	if err != nil {
		return err
	}
	raceLog = f
	return syscall.Dup2(int(f.Fd()), 2)
}

func raceLogSize() int64 {
	if raceLog == nil {
		return 0
	}
	st, err := raceLog.Stat()
	if err != nil {
		return 0
	}
	return st.Size()
}

func raceLogFrom(off int64) string {
	if raceLog == nil {
		return ""
	}
	b := make([]byte, raceLogSize()-off)
	n, _ := raceLog.ReadAt(b, off)
	return string(b[:n])
}

func runTasksR(tasks []C19Task, rs *simrt.RSched, only int) *rRun {
	run := &rRun{rs: rs}
	simrt.RestoreGlobals()
	mat := NewMaterializer(true)
	args := make([][]*Args, len(tasks))
	for ti, t := range tasks {
		if only >= 0 && ti != only {
			continue
		}
		for _, c := range t.Calls {
			args[ti] = append(args[ti], mat.Build(c))
		}
	}
	run.results = make([][]Result, len(tasks))
	base := 0
	var sts []*simrt.RTask
	for ti := range tasks {
		b := base
		base += len(tasks[ti].Calls)
		if only >= 0 && ti != only {
			continue
		}
		ti := ti
		t := tasks[ti]
		res := make([]Result, len(t.Calls))
		run.results[ti] = res
		targs := args[ti]
		sts = append(sts, rs.AddTask(func() {
			cur := simrt.RCurTask()
			for ci, c := range t.Calls {
				spec := opByName[c.Op]
				if spec == nil {
					res[ci] = Result{Panic: "unknown op " + c.Op}
					continue
				}
				cur.SetCall(b+ci, 1)
				res[ci] = guard(func() Result { return spec.Exec(c, targs[ci]) })
				cur.SetCall(b+ci, 0)
			}
		}, t.order()))
	}
	mark := raceLogSize()
	simrt.Active = true
	ok := rs.Run(60 * time.Second)
	_, _, _, dl, ovf, ovr := rs.Stats()
	if ok && !dl {
		// (after a stall or deadlock parked tasks are still alive and have read this variable:
		// the process is abandoned, and nothing they may have read is written any more)
		simrt.Active = false
	}
	run.stalled, run.deadlock, run.overflow, run.overrun = !ok, dl, ovf, ovr
	run.unowned = rs.UnownedSeen
	run.leftover = rs.Leftover
	for _, st := range sts {
		run.yields = append(run.yields, st.Yields)
		run.acc = append(run.acc, st.AccYields)
	}
	if raceLogSize() > mark {
		// whatever else the library or a dependency printed to stderr is not a report
		if txt := raceLogFrom(mark); strings.Contains(txt, "WARNING: DATA RACE") {
			run.race = txt[strings.Index(txt, "WARNING: DATA RACE"):]
		}
	}
	return run
}

type rEval struct {
	clauses       map[string]string
	sites         []string
	inter         *rRun
	solo          []*rRun
	abandon       string // the process state is no longer trustworthy (deadlock, stall): stop this process
	harness       string // a report that names no library frame: trouble of the harness, not a verdict
	unowned       bool   // goroutines the scheduler did not start were running: not a simulation
	switches      int
	skip          string // why there was no interleaved run to judge
	notRepeatable int
	leftover      int // goroutines of the library left blocked by the runs of this case (pool workers): each holds an OS thread
}

var frameRe = regexp.MustCompile(`(?m)^\s+(\S+?)\(.*\)\n\s+(\S+\.go):(\d+) \+0x`)

// raceSummary condenses a detector report: the first library frame of each of the two accesses.
func raceSummary(rep string) (detail string, sites []string, library bool) {
	blocks := strings.Split(rep, "\n\n")
	for bi, blk := range blocks {
		if bi > 1 {
			break
		}
	frames:
		for _, m := range frameRe.FindAllStringSubmatch(blk, -1) {
			fn, file := m[1], m[2]
			for p := range simrt.OwnedPackages {
				if strings.HasPrefix(fn, p+".") {
					library = true
					parts := strings.Split(file, "/")
					if len(parts) > 2 {
						parts = parts[len(parts)-2:]
					}
					sites = append(sites, strings.Join(parts, "/")+":"+m[3])
					break frames
				}
			}
		}
	}
	lines := strings.Split(rep, "\n")
	var keep []string
	for _, l := range lines {
		l = strings.TrimSpace(l)
		if l == "" || strings.HasPrefix(l, "====") {
			continue
		}
		keep = append(keep, l)
		if len(keep) >= 16 {
			break
		}
	}
	return strings.Join(keep, " | "), sites, library
}

func (ev *rEval) noteRace(rep, when string) {
	d, sites, lib := raceSummary(rep)
	if !lib {
		ev.harness = "race detector report without a library frame (" + when + "): " + d
		return
	}
	if _, dup := ev.clauses["laneR-data-race"]; !dup {
		ev.clauses["laneR-data-race"] = "race detector, " + when + ": " + d
		ev.sites = sites
	}
}

// evalR: every task alone (yield counts, reference results), then all tasks under the given
// scheduler.
func evalR(tasks []C19Task, mk func(solo []*rRun) *simrt.RSched) *rEval {
	ev := &rEval{clauses: map[string]string{}}
	for ti := range tasks {
		rs := simrt.NewRSched(nil)
		rs.AbortYields = 60_000_000
		s := runTasksR(tasks, rs, ti)
		ev.solo = append(ev.solo, s)
		ev.leftover += s.leftover
		if s.unowned {
			ev.unowned = true
			ev.skip = "unowned goroutines (solo)"
			return ev
		}
		if s.race != "" {
			ev.noteRace(s.race, fmt.Sprintf("task %d alone", ti))
		}
		if s.stalled || s.deadlock {
			ev.abandon = fmt.Sprintf("task %d alone: stalled=%v deadlock=%v", ti, s.stalled, s.deadlock)
			ev.skip = "stalled or deadlocked (solo)"
			return ev
		}
		if s.overrun || s.overflow {
			ev.skip = fmt.Sprintf("solo run cut short (overrun=%v overflow=%v)", s.overrun, s.overflow)
			return ev
		}
	}
	is := mk(ev.solo)
	tot := 0
	for _, so := range ev.solo {
		for _, y := range so.yields {
			tot += y
		}
	}
	is.AbortYields = 20*tot + 1_000_000
	in := runTasksR(tasks, is, -1)
	ev.inter = in
	ev.leftover += in.leftover
	_, ev.switches, _, _, _, _ = is.Stats()
	if in.unowned {
		ev.unowned = true
		return ev
	}
	if in.race != "" {
		ev.noteRace(in.race, "tasks interleaved")
	}
	if in.stalled || in.deadlock {
		ev.abandon = fmt.Sprintf("interleaved: stalled=%v deadlock=%v", in.stalled, in.deadlock)
		return ev
	}
	if in.overrun || in.overflow {
		return ev
	}
	for ti := range tasks {
		for ci := range tasks[ti].Calls {
			a, b := &ev.solo[ti].results[ti][ci], &in.results[ti][ci]
			if a.Fingerprint() != b.Fingerprint() {
				spec := opByName[tasks[ti].Calls[ci].Op]
				if spec != nil && spec.SetOp && !orderedOps[spec.Name] && canonResult(spec, a) == canonResult(spec, b) {
					continue
				}
				// a call that does not even repeat its own result when run alone again is C16's
				// matter, not a concurrency finding
				if again := runTasksR(tasks, func() *simrt.RSched { r := simrt.NewRSched(nil); r.AbortYields = 60_000_000; return r }(), ti); again.stalled || again.deadlock || again.results[ti] == nil || again.results[ti][ci].Fingerprint() != a.Fingerprint() {
					ev.notRepeatable++
					if again.stalled || again.deadlock {
						ev.abandon = "solo re-run stalled"
					}
					continue
				}
				if _, dup := ev.clauses["laneR-result-differs-from-solo"]; !dup {
					ev.clauses["laneR-result-differs-from-solo"] = fmt.Sprintf("task %d call %d (%s): alone %s; interleaved %s", ti, ci, tasks[ti].Calls[ci].Op, a.String(), b.String())
				}
			}
		}
	}
	return ev
}

func planR(rs *simrt.RSched, rng *simrt.Rand, solo []*rRun, ntasks, budget int) {
	// when the library starts goroutines of its own, also preempt at global positions: the
	// running task may then be one of those goroutines
	goCalls, total := 0, 0
	for _, so := range solo {
		y, _, gc, _, _, _ := so.rs.Stats()
		goCalls += gc
		total += y
	}
	if goCalls > 0 && total > 0 {
		for b := 0; b < 2+budget; b++ {
			rs.PreemptGlobalAt(rng.Intn(total))
		}
	}
	for b := 0; b < budget; b++ {
		t := rng.Intn(ntasks)
		y, a := 0, 0
		if t < len(solo) && len(solo[t].yields) > 0 {
			y, a = solo[t].yields[0], solo[t].acc[0]
		}
		if a > 0 && rng.Chance(1, 2) {
			rs.PreemptAt(simrt.PKey{Task: t, Class: 1, Idx: rng.Intn(a)})
		} else if y > 0 {
			rs.PreemptAt(simrt.PKey{Task: t, Class: 0, Idx: rng.Intn(y)})
		}
	}
}

func rlaneMain(argv []string) int {
	fs := flag.NewFlagSet("rlane", flag.ExitOnError)
	seed := fs.Uint64("seed", 1, "")
	wi := fs.Int("w", 0, "")
	wn := fs.Int("n", 1, "")
	from := fs.Int64("from", 0, "first case index of this process")
	cases := fs.Int64("cases", 0, "")
	tier := fs.String("tier", "quick", "")
	inv := fs.String("inv", "", "")
	scratch := fs.String("scratch", os.TempDir(), "")
	file := fs.String("file", "", "replay file")
	budget := fs.Duration("budget", time.Minute, "")
	caseLogDir := fs.String("caselog", "", "directory for per-case hash logs (determinism self-test)")
	fs.Parse(argv)
	invn := loadInventory(*inv)
	prepareRuntime(invn)
	noScribble = true
	// address-space limit (the race runtime maps its shadow on demand, so a limit works): a
	// corrupted size computed by the code under test must fail fast
	lim := syscall.Rlimit{Cur: 32 << 30, Max: 32 << 30}
	syscall.Setrlimit(syscall.RLIMIT_AS, &lim)
	logPath := filepath.Join(*scratch, fmt.Sprintf("racelog.%d.%d", *wi, os.Getpid()))
	if err := raceLogInit(logPath); err != nil {
		fmt.Println("ERROR: race log:", err)
		return 2
	}
	defer os.Remove(logPath)
	if simrt.RealGo {
		fmt.Println(`{"skipped": "library uses blocking constructs the simulator does not own"}`)
		return 0
	}
	if *file != "" {
		b, err := os.ReadFile(*file)
		if err != nil {
			fmt.Println("ERROR:", err)
			return 2
		}
		var doc struct {
			Replay laneRReplay `json:"replay"`
		}
		if err := json.Unmarshal(b, &doc); err != nil {
			fmt.Println("ERROR:", err)
			return 2
		}
		rp := doc.Replay
		if rp.Tasks == nil { // a bare replay (shrink candidates)
			json.Unmarshal(b, &rp)
		}
		ev := evalR(rp.Tasks, func([]*rRun) *simrt.RSched { return simrt.NewReplayRSched(rp.Sched) })
		if ev.harness != "" || ev.unowned {
			fmt.Println("ERROR:", ev.harness, "unowned goroutines:", ev.unowned)
			return 2
		}
		if d, ok := ev.clauses[rp.Clause]; ok {
			fmt.Printf("  reproduced: clause=%s sites=%v %s\n", rp.Clause, ev.sites, d)
			return 1
		}
		if ev.abandon != "" {
			fmt.Println("ERROR: run abandoned:", ev.abandon)
			return 2
		}
		if len(ev.clauses) > 0 {
			fmt.Println("other clauses violated:", sortedKeys(ev.clauses))
		}
		fmt.Println("replay: property holds on this tree (lane R)")
		return 0
	}
	w := &Worker{Prop: "C19", Tier: *tier, Seed: *seed, W: *wi, N: *wn, St: newStats("C19"), hashes: map[uint64]struct{}{}, seenClass: map[string]*Violation{}, inv: invn}
	vl, err := os.OpenFile(filepath.Join(*scratch, fmt.Sprintf("rviol.%d.jsonl", *wi)), os.O_CREATE|os.O_APPEND|os.O_WRONLY, 0o644)
	if err == nil {
		w.violLog = vl
		defer vl.Close()
	}
	if *caseLogDir != "" {
		if fl, err := os.OpenFile(filepath.Join(*caseLogDir, fmt.Sprintf("r%02d.log", *wi)), os.O_CREATE|os.O_APPEND|os.O_WRONLY, 0o644); err == nil {
			w.caseLog = fl
			defer fl.Close()
		}
	}
	deadline := time.Now().Add(*budget)
	next := int64(-1) // index at which a successor process is to continue (-1: done)
	leaked, recycled := 0, false
	var mu sync.Mutex
	var caseStart time.Time
	var curCase int64
	go func() {
		for {
			time.Sleep(time.Second)
			mu.Lock()
			st, c := caseStart, curCase
			mu.Unlock()
			if !st.IsZero() && time.Since(st) > 300*time.Second {
				fmt.Fprintf(os.Stdout, "WATCHDOG: lane-R worker %d case %d runs for more than 300 s (seed %d)\n", *wi, c, *seed)
				os.Exit(3)
			}
		}
	}()
	t0 := time.Now()
	for idx := *from; idx < *cases; idx += int64(*wn) {
		if time.Now().After(deadline) {
			if *cases < 1<<39 {
				w.St.Errors = append(w.St.Errors, fmt.Sprintf("budget reached at case %d of %d", idx, *cases))
			}
			break
		}
		mu.Lock()
		caseStart, curCase = time.Now(), idx
		mu.Unlock()
		g := &Gen{R: simrt.NewRand(simrt.Mix(*seed, uint64(idx), 19)), Deep: *tier == "thorough"}
		tasks := genC19Tasks(g, *seed, idx)
		resetInputBufs()
		w.St.Cases++
		nb := 0
		switch x := g.R.Intn(10); {
		case x == 0:
		case x < 7:
			nb = 1 + g.R.Intn(3)
		default:
			nb = 4 + g.R.Intn(5)
		}
		chain := g.R.Chance(1, 3)
		rng := simrt.NewRand(simrt.Mix(*seed, uint64(idx), 1902))
		ev := evalR(tasks, func(solo []*rRun) *simrt.RSched {
			rs := simrt.NewRSched(rng)
			planR(rs, rng, solo, len(tasks), nb)
			if nb > 0 && chain {
				rs.Chain = 2 + rng.Intn(5)
			}
			return rs
		})
		if ev.unowned {
			w.St.Extra["unowned_goroutines_seen"]++
			w.St.Errors = append(w.St.Errors, fmt.Sprintf("lane R case %d: goroutines the simulator did not start are running (a dependency or an unrewritten construct starts them); lane R stopped in this worker", idx))
			break
		}
		if ev.skip != "" {
			w.St.Probes["laneR_no_interleaved_run: "+ev.skip]++
		}
		if ev.harness != "" {
			w.St.Errors = append(w.St.Errors, fmt.Sprintf("lane R case %d: %s", idx, ev.harness))
			w.St.Extra["laneR_reports_without_library_frame"]++
		}
		if in := ev.inter; in != nil {
			y, sw, gc, _, _, _ := in.rs.Stats()
			w.St.Evaluations += int64(1 + len(tasks))
			w.St.LogicalTime += int64(y)
			w.St.FaultKinds["preemption"] += int64(countKind(in.rs.Decisions(), "preempt"))
			w.St.FaultKinds["preemption_inside_a_call"] += int64(sw)
			w.St.Probes["library_go_statements_simulated"] += int64(gc)
			if in.overrun || in.overflow {
				w.St.Probes["runs_cut_short"]++
			}
			if sw > 0 {
				h := callSetHash(tasks)
				for _, d := range in.rs.Decisions() {
					h = h*1099511628211 ^ uint64(d.Yield)<<20 ^ uint64(d.From)<<8 ^ uint64(d.To)
				}
				w.addNontrivial(h)
			}
		}
		if in := ev.inter; in != nil && w.caseLog != nil {
			// event hash of the case: every result, every scheduling decision
			h := callSetHash(tasks)
			for ti := range in.results {
				for ci := range in.results[ti] {
					h = h*1099511628211 ^ in.results[ti][ci].Fingerprint()
				}
			}
			for _, d := range in.rs.Decisions() {
				h = h*1099511628211 ^ uint64(d.Yield)<<20 ^ uint64(d.From)<<8 ^ uint64(d.To) ^ hashStrings(d.Kind)
			}
			fmt.Fprintf(w.caseLog, "%d R%016x\n", idx, h)
		}
		for _, cl := range sortedKeys(ev.clauses) {
			var sched []simrt.SchedDecision
			if ev.inter != nil {
				sched = ev.inter.rs.Decisions()
			}
			w.report(&Violation{Property: "C19", Clause: cl, Op: "concurrent", Seed: *seed, Case: idx, Detail: ev.clauses[cl], Sites: ev.sites,
				Replay: mustJSON(&laneRReplay{Lane: "R", Tasks: tasks, Sched: sched, Clause: cl})})
		}
		leaked += ev.leftover
		if leaked > 96 && ev.abandon == "" && len(ev.clauses) == 0 {
			// workers of package-level pools stay behind, blocked, after every run (package state is
			// reset, so every case starts its own pool); each holds an OS thread: start over
			w.St.Extra["laneR_processes_recycled_for_leftover_goroutines"]++
			recycled = true
			next = idx + int64(*wn)
			break
		}
		if ev.abandon != "" {
			// parked goroutines of this case stay behind (holding whatever they hold): the rest of
			// this worker's share is done by a fresh process
			w.St.Extra["laneR_cases_abandoned"]++
			w.St.Errors = append(w.St.Errors, fmt.Sprintf("lane R case %d abandoned: %s", idx, ev.abandon))
			next = idx + int64(*wn)
			break
		}
		if len(ev.clauses) > 0 {
			// the detector reports each racing pair once per process and its history now holds the
			// racing case: continue in a fresh process
			next = idx + int64(*wn)
			break
		}
	}
	mu.Lock()
	caseStart = time.Time{}
	mu.Unlock()
	w.St.SimSeconds = time.Since(t0).Seconds()
	w.St.Nontrivial = int64(len(w.hashes))
	out := map[string]any{"stats": w.St, "next": next, "recycled": recycled}
	var hs []uint64
	for h := range w.hashes {
		hs = append(hs, h)
	}
	out["hashes"] = hs
	b, _ := json.Marshal(out)
	if err := os.WriteFile(filepath.Join(*scratch, fmt.Sprintf("rstats.%d.%d.json", *wi, *from)), b, 0o644); err != nil {
		return 2
	}
	return 0
}

// runLaneR drives the lane-R workers and confirms / minimises what they report.
func runLaneR(f *commonFlags, scratch string) (map[string]any, []*Violation, int) {
	cases := int64(8000)
	budget := 240 * time.Second // a cap: 8000 cases take about 20 s on an idle machine
	if f.tier == "thorough" {
		cases, budget = 1<<40, 5*time.Minute
	}
	if v := os.Getenv("VERIF_LANER_CASES"); v != "" {
		fmt.Sscan(v, &cases)
	}
	if f.budget > 0 {
		budget = f.budget
	}
	env := append(os.Environ(), "GORACE=halt_on_error=0 exitcode=0", "GOMAXPROCS="+gomaxprocsFor(f.workers))
	deadline := time.Now().Add(budget)
	t0 := time.Now()
	tot := newStats("C19")
	distinct := map[uint64]struct{}{}
	var mu sync.Mutex
	var wg sync.WaitGroup
	procs, failed := 0, 0
	var failOut string
	for i := 0; i < f.workers; i++ {
		wg.Add(1)
		go func(i int) {
			defer wg.Done()
			from := int64(i)
			withReport := 0
			// a process ends at its first report (the detector reports a racing pair once per
			// process); after three such processes this worker's share is left: there is a
			// verdict already, and a tree that races in every other case would otherwise cost
			// thousands of processes
			for from >= 0 && from < cases && time.Now().Before(deadline) && withReport < 3 {
				cmd := exec.Command(f.laneR, "rlane", "-seed", fmt.Sprint(f.seed), "-w", fmt.Sprint(i), "-n", fmt.Sprint(f.workers), "-from", fmt.Sprint(from),
					"-cases", fmt.Sprint(cases), "-tier", f.tier, "-inv", f.inv, "-scratch", scratch, "-budget", time.Until(deadline).String())
				if f.caseLog != "" {
					cmd.Args = append(cmd.Args, "-caselog", f.caseLog)
				}
				cmd.Env = env
				out, err := cmd.CombinedOutput()
				sp := filepath.Join(scratch, fmt.Sprintf("rstats.%d.%d.json", i, from))
				b, rerr := os.ReadFile(sp)
				os.Remove(sp)
				var doc struct {
					Stats  *Stats   `json:"stats"`
					Next   int64    `json:"next"`
					Recyc  bool     `json:"recycled"`
					Hashes []uint64 `json:"hashes"`
				}
				mu.Lock()
				procs++
				if err != nil || rerr != nil || json.Unmarshal(b, &doc) != nil || doc.Stats == nil {
					failed++
					failOut = fmt.Sprintf("worker %d from case %d: %v\n%s", i, from, err, tail(string(out), 12))
					mu.Unlock()
					return
				}
				doc.Stats.Violations = nil // taken from the streamed file below
				mergeStats(tot, doc.Stats)
				for _, h := range doc.Hashes {
					distinct[h] = struct{}{}
				}
				mu.Unlock()
				if doc.Next >= 0 && !doc.Recyc {
					withReport++
				}
				from = doc.Next
			}
		}(i)
	}
	wg.Wait()
	info := map[string]any{"note": "lane R: the simulated scheduler (explicit, replayable preemptions) inside a race-detector build of the instrumented library; the Go race detector is the oracle for data races, result comparison with the task run alone for the rest",
		"wall_s": time.Since(t0).Seconds(), "processes": procs, "cases": tot.Cases, "executions": tot.Evaluations, "distinct_interleavings": len(distinct),
		"preemptions": tot.FaultKinds["preemption"], "preemptions_inside_a_call": tot.FaultKinds["preemption_inside_a_call"],
		"library_go_statements_simulated": tot.Probes["library_go_statements_simulated"], "yield_events": tot.LogicalTime,
		"cases_abandoned": tot.Extra["laneR_cases_abandoned"], "notes": tot.Errors, "probes": tot.Probes}
	for _, e := range tot.Errors {
		fmt.Println("note: lane R:", e)
	}
	for _, k := range sortedKeys(tot.Probes) {
		if strings.HasPrefix(k, "laneR_no_interleaved_run") {
			fmt.Printf("note: %s: %d case(s)\n", k, tot.Probes[k])
		}
	}
	if tot.Extra["unowned_goroutines_seen"] > 0 {
		fmt.Printf("note: goroutines the simulator did not start were seen in %d lane-R runs: lane R gives no verdict for this tree; verdict from lane B\n", tot.Extra["unowned_goroutines_seen"])
		info["skipped"] = "goroutines the simulator did not start were seen"
		return info, nil, 0
	}
	if failed > 0 {
		fmt.Printf("ERROR: %d lane-R worker process(es) failed\n%s\n", failed, failOut)
		return info, nil, 2
	}
	// collect streamed violations, one class each (lowest case index)
	byClass := map[string]*Violation{}
	for i := 0; i < f.workers; i++ {
		b, err := os.ReadFile(filepath.Join(scratch, fmt.Sprintf("rviol.%d.jsonl", i)))
		if err != nil {
			continue
		}
		for _, line := range bytes.Split(b, []byte("\n")) {
			v := &Violation{}
			if len(line) == 0 || json.Unmarshal(line, v) != nil || v.Replay == nil {
				continue
			}
			if o, ok := byClass[v.Clause]; !ok || v.Case < o.Case {
				if ok {
					v.Count += o.Count
				}
				byClass[v.Clause] = v
			} else {
				o.Count += v.Count
			}
		}
	}
	var viol []*Violation
	unrepro := 0
	for _, cl := range sortedKeys(byClass) {
		v := byClass[cl]
		rp := &laneRReplay{}
		json.Unmarshal(v.Replay, rp)
		fails := func(c *laneRReplay) (bool, string) {
			p := filepath.Join(scratch, "rcand.json")
			os.WriteFile(p, mustJSON(map[string]any{"replay": c}), 0o644)
			cmd := exec.Command(f.laneR, "rlane", "-file", p, "-inv", f.inv, "-scratch", scratch)
			cmd.Env = env
			out, err := cmd.CombinedOutput()
			if ee, ok := err.(*exec.ExitError); ok && ee.ExitCode() == 1 {
				return true, string(out)
			}
			return false, string(out)
		}
		ok, out := fails(rp)
		if !ok {
			fmt.Printf("note: lane-R report (%s, case %d) did not reproduce from its explicit replay in a fresh process; dropped\n%s\n%s\n", cl, v.Case, v.Detail, tail(out, 6))
			unrepro++
			continue
		}
		small, note := shrinkR(rp, func(c *laneRReplay) bool { ok, _ := fails(c); return ok })
		if _, o2 := fails(small); strings.Contains(o2, "reproduced:") {
			if i := strings.Index(o2, "reproduced:"); i >= 0 {
				v.Detail = strings.TrimSpace(firstLines(o2[i+len("reproduced:"):], 1))
			}
		}
		v.Replay = mustJSON(small)
		v.Shrunk = note
		viol = append(viol, v)
	}
	info["reports"] = len(byClass)
	info["reports_not_reproduced"] = unrepro
	if unrepro > 0 && len(viol) == 0 {
		return info, nil, 3
	}
	sort.Slice(viol, func(i, j int) bool { return viol[i].Case < viol[j].Case })
	return info, viol, 0
}

func shrinkR(rp *laneRReplay, fails func(*laneRReplay) bool) (*laneRReplay, string) {
	budget := 40
	deadline := time.Now().Add(90 * time.Second)
	try := func(c *laneRReplay) bool {
		if budget <= 0 || time.Now().After(deadline) {
			return false
		}
		budget--
		return fails(c)
	}
	cur := rp
	steps := 0
	// whole tasks first (largest reduction per process started)
	for k := len(cur.Tasks) - 1; k >= 0 && len(cur.Tasks) > 1; k-- {
		if k >= len(cur.Tasks) {
			continue
		}
		c := &laneRReplay{Lane: "R", Clause: cur.Clause}
		c.Tasks = append(append([]C19Task{}, cur.Tasks[:k]...), cur.Tasks[k+1:]...)
		for _, d := range cur.Sched {
			if d.From == k || d.To == k {
				continue
			}
			if d.From > k {
				d.From--
			}
			if d.To > k {
				d.To--
			}
			c.Sched = append(c.Sched, d)
		}
		if try(c) {
			cur = c
			steps++
		}
	}
	// all preemptions at once, then one by one
	if countKind(cur.Sched, "preempt") > 0 {
		c := &laneRReplay{Lane: "R", Tasks: cur.Tasks, Clause: cur.Clause}
		for _, d := range cur.Sched {
			if d.Kind != "preempt" {
				c.Sched = append(c.Sched, d)
			}
		}
		if try(c) {
			cur = c
			steps++
		} else {
			for i := 0; i < len(cur.Sched); {
				if cur.Sched[i].Kind != "preempt" {
					i++
					continue
				}
				c := &laneRReplay{Lane: "R", Tasks: cur.Tasks, Clause: cur.Clause}
				c.Sched = append(append([]simrt.SchedDecision{}, cur.Sched[:i]...), cur.Sched[i+1:]...)
				if try(c) {
					cur = c
					steps++
				} else {
					i++
				}
			}
		}
	}
	for ti := range cur.Tasks {
		for ci := len(cur.Tasks[ti].Calls) - 1; ci >= 0 && len(cur.Tasks[ti].Calls) > 1; ci-- {
			c := &laneRReplay{Lane: "R", Sched: cur.Sched, Clause: cur.Clause}
			c.Tasks = append([]C19Task{}, cur.Tasks...)
			calls := append([]*Call{}, cur.Tasks[ti].Calls[:ci]...)
			calls = append(calls, cur.Tasks[ti].Calls[ci+1:]...)
			c.Tasks[ti].Calls = calls
			if try(c) {
				cur = c
				steps++
			}
		}
	}
	for ti := range cur.Tasks {
		if cur.Tasks[ti].OrderSeed == 0 {
			continue
		}
		c := &laneRReplay{Lane: "R", Sched: cur.Sched, Clause: cur.Clause}
		c.Tasks = append([]C19Task{}, cur.Tasks...)
		c.Tasks[ti].OrderSeed = 0
		if try(c) {
			cur = c
			steps++
		}
	}
	return cur, fmt.Sprintf("%d shrink steps (each candidate in a fresh process); %d tasks, %d preemptions left", steps, len(cur.Tasks), countKind(cur.Sched, "preempt"))
}
