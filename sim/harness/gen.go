package main

import (
	"fmt"
	"math"
	"strconv"
	"strings"

	"verif.local/simrt"
)

// Gen draws every random choice of a case from one PRNG (seeded from VERIF_SEED and the
// case index).
type Gen struct {
	R    *simrt.Rand
	Deep bool // thorough tier: longer lists, larger expansions
}

// n draws a list length in 1..k (1..3k in the thorough tier).
func (g *Gen) n(k int) int {
	// now and then a long list: size thresholds (insertion sort below 12 elements, a parallel
	// path above N, a fast path for short inputs) are where behaviour changes
	big := 40
	if g.Deep {
		big = 12
	}
	if g.R.Chance(1, big) {
		return 25 + g.R.Intn(70)
	}
	if g.Deep && g.R.Chance(1, 2) {
		return 1 + g.R.Intn(3*k)
	}
	return 1 + g.R.Intn(k)
}

// huge draws a very long list length (hundreds), rarely.
func (g *Gen) huge() int {
	big := 60
	if g.Deep {
		big = 20
	}
	if g.R.Chance(1, big) {
		return 500 + g.R.Intn(700)
	}
	return 0
}

// vast draws a list length beyond 4096 (the kind of threshold above which an implementation
// switches to a parallel or chunked path), very rarely; only operations whose cost is linear
// in the list length use it.
func (g *Gen) vast() int {
	den := 160
	if g.Deep {
		den = 50
	}
	if g.R.Chance(1, den) {
		return 4100 + g.R.Intn(2500)
	}
	return 0
}

// cap is the bound on the size of an expansion.
func (g *Gen) cap(c int64) int64 {
	if g.Deep {
		return 4 * c
	}
	return c
}

func pow2(n int64) int64 { return int64(1) << uint(n) }

func extID(hz, x, y, vz, z int64) string {
	return strconv.FormatInt(hz, 10) + "/" + strconv.FormatInt(x, 10) + "/" + strconv.FormatInt(y, 10) + "/" +
		strconv.FormatInt(vz, 10) + "/" + strconv.FormatInt(z, 10)
}

func spID(z, f, x, y int64) string {
	return strconv.FormatInt(z, 10) + "/" + strconv.FormatInt(f, 10) + "/" + strconv.FormatInt(x, 10) + "/" + strconv.FormatInt(y, 10)
}

func parseInts(id string) []int64 {
	p := strings.Split(id, "/")
	out := make([]int64, len(p))
	for i, s := range p {
		out[i], _ = strconv.ParseInt(s, 10, 64)
	}
	return out
}

func mod(a, m int64) int64 {
	a %= m
	if a < 0 {
		a += m
	}
	return a
}

// zoom pair with the given bounds
func (g *Gen) zoom(lo, hi int64) int64 { return g.R.Range(lo, hi) }

// vertical index: mostly near zero (both signs), sometimes far out
func (g *Gen) vIndex(vz int64) int64 {
	lim := pow2(vz)
	switch g.R.Intn(10) {
	case 0:
		return g.R.Range(-lim, lim-1)
	case 1, 2:
		return -g.R.Range(1, min64(lim, 9))
	default:
		return g.R.Range(0, min64(lim-1, 9))
	}
}

func min64(a, b int64) int64 {
	if a < b {
		return a
	}
	return b
}
func max64(a, b int64) int64 {
	if a > b {
		return a
	}
	return b
}

// cluster returns n extended IDs at (hz,vz) close to a random base voxel: neighbours,
// repeats, and so overlapping expansions and complete/incomplete sibling groups.
func (g *Gen) cluster(hz, vz int64, n int) []string {
	m := pow2(hz)
	bx, by, bz := g.R.Range(0, m-1), g.R.Range(0, m-1), g.vIndex(vz)
	if g.R.Chance(1, 6) {
		bx = g.R.Range(0, min64(m-1, 1)) // near the wrap-around column
	}
	ids := make([]string, 0, n)
	sp := int64(2)
	if n > 20 {
		sp = 4
	}
	if n > 200 {
		sp = 9
	}
	for i := 0; i < n; i++ {
		dx, dy, dz := g.R.Range(-sp, sp), g.R.Range(-sp, sp), g.R.Range(-2, 2)
		ids = append(ids, extID(hz, mod(bx+dx, m), mod(by+dy, m), vz, bz+dz))
	}
	return ids
}

// mixedList: IDs at zooms within `spread` of (hz,vz): cluster members, their parents and
// some of their children.
func (g *Gen) mixedList(hz, vz int64, n int, spread int64) []string {
	base := g.cluster(hz, vz, n)
	out := make([]string, 0, n)
	for _, id := range base {
		a := parseInts(id)
		switch g.R.Intn(6) {
		case 0: // parent
			dh := g.R.Range(0, min64(spread, a[0]))
			dv := g.R.Range(0, min64(spread, a[3]))
			out = append(out, extID(a[0]-dh, a[1]>>uint(dh), a[2]>>uint(dh), a[3]-dv, a[4]>>uint(dv)))
		case 1: // one child
			dh := g.R.Range(0, min64(spread, 35-a[0]))
			dv := g.R.Range(0, min64(spread, 35-a[3]))
			out = append(out, extID(a[0]+dh, a[1]<<uint(dh)+g.R.Range(0, pow2(dh)-1), a[2]<<uint(dh)+g.R.Range(0, pow2(dh)-1),
				a[3]+dv, a[4]*pow2(dv)+g.R.Range(0, pow2(dv)-1)))
		default:
			out = append(out, id)
		}
	}
	return out
}

// siblings returns the 8 children (4 horizontal x 2 vertical) of a voxel, each kept with
// probability keepNum/keepDen.
func (g *Gen) siblings(hz, x, y, vz, z int64, keepNum, keepDen int) []string {
	var out []string
	for dx := int64(0); dx < 2; dx++ {
		for dy := int64(0); dy < 2; dy++ {
			for dz := int64(0); dz < 2; dz++ {
				if g.R.Chance(keepNum, keepDen) {
					out = append(out, extID(hz+1, 2*x+dx, 2*y+dy, vz+1, 2*z+dz))
				}
			}
		}
	}
	return out
}

func (g *Gen) shuffleStrings(s []string) {
	for i := len(s) - 1; i > 0; i-- {
		j := g.R.Intn(i + 1)
		s[i], s[j] = s[j], s[i]
	}
}

func extToSp(id string) string {
	a := parseInts(id)
	return spID(a[0], a[4], a[1], a[2])
}

// voxel geometry helpers (Web-Mercator grid); used for scenario sizing only
func voxelWidthM(hz int64, latDeg float64) float64 {
	return 40075016.68557849 * math.Cos(latDeg*math.Pi/180) / float64(pow2(hz))
}

func (g *Gen) lonLat() (float64, float64) {
	lon := -179.9 + 359.8*g.R.Float64()
	lat := -80 + 160*g.R.Float64()
	return round10(lon), round10(lat)
}

func round10(x float64) float64 { return math.Round(x*1e9) / 1e9 }

func fmtF(f float64) string { return strconv.FormatFloat(f, 'g', -1, 64) }

func fmtCall(c *Call) string { return fmt.Sprintf("%+v", *c) }
