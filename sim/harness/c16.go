package main

import (
	"encoding/json"
	"fmt"
	"sort"
	"time"

	"verif.local/simrt"
)

// C16Replay is the explicit description of one C16 counterexample: a base call, an index
// mapping that turns its list arguments into the perturbed ones, and the seam decisions of
// the perturbed run. The reference run is the base call under the canonical schedule.
type C16Replay struct {
	Base      *Call            `json:"base"`
	Pert      string           `json:"perturbation"` // none | permute | duplicate | both
	ListIdx   map[string][]int `json:"list_index_maps,omitempty"`
	Decisions []simrt.Decision `json:"seam_decisions"`
	// Decoy, if present, is another call of the same operation on related arguments that is
	// executed between the reference run and the compared run: the "history" a second client
	// of the library would create (a wrongly keyed cache shows only then).
	Decoy *Call `json:"intervening_call,omitempty"`
	Alias bool  `json:"same_slice_for_equal_lists,omitempty"`
	// History: the runs of the same case that were executed (in this order, after the
	// reference run) before the compared run. State the library keeps between calls makes
	// a result depend on them; the shrinker removes the ones that do not matter.
	History []C16Step `json:"earlier_runs,omitempty"`
	Clause  string    `json:"clause"`
}

type C16Step struct {
	Pert      string           `json:"perturbation"`
	ListIdx   map[string][]int `json:"list_index_maps,omitempty"`
	Decisions []simrt.Decision `json:"seam_decisions,omitempty"`
	Decoy     *Call            `json:"intervening_call,omitempty"`
}

// decoyOf derives a related call: same operation, one argument nudged.
func decoyOf(r *simrt.Rand, c *Call) *Call {
	d := c.clone()
	var opts []func()
	for i := range d.Ints {
		i := i
		opts = append(opts, func() { d.Ints[i] += []int64{-2, -1, -1, 1}[r.Intn(4)] })
	}
	for i := range d.Flts {
		i := i
		if d.Op == "corridor" {
			// radii: also sub-millimetre ones, below any rounding a cache key might apply
			opts = append(opts, func() { d.Flts[i] = []float64{0, d.Flts[i] * 0.5, d.Flts[i] + 0.0003, 0.0004}[r.Intn(4)] })
		} else {
			opts = append(opts, func() { d.Flts[i] *= 0.5 })
		}
	}
	for i := range d.Bools {
		i := i
		opts = append(opts, func() { d.Bools[i] = !d.Bools[i] })
	}
	nudge := func(l []string) {
		if len(l) == 0 {
			return
		}
		j := r.Intn(len(l))
		a := parseInts(l[j])
		if len(a) == 0 {
			return
		}
		k := len(a) - 1 - r.Intn(2)
		if k < 0 {
			k = 0
		}
		a[k] += []int64{-1, 1}[r.Intn(2)]
		parts := make([]string, len(a))
		for x, v := range a {
			parts[x] = fmt.Sprint(v)
		}
		l[j] = joinSlash(parts)
	}
	if len(d.IDs) > 0 {
		opts = append(opts, func() { nudge(d.IDs) }, func() { d.IDs = d.IDs[:len(d.IDs)-1] },
			// a call that fails after a valid prefix of its list was processed (error paths
			// that leave state behind show on the next call)
			func() {
				// malformed or out-of-range in a way every operation rejects quickly
				// (an out-of-range zoom is not: merge divides everything down to the finest zoom it sees)
				bad := []string{"not-an-id", "1/2/3", "5/x/1/5/0"}[r.Intn(3)]
				d.IDs = append(d.IDs, bad)
			})
	}
	if len(d.IDs2) > 0 {
		opts = append(opts, func() { nudge(d.IDs2) })
	}
	if len(d.Tiles) > 0 {
		opts = append(opts, func() { j := r.Intn(len(d.Tiles)); d.Tiles[j][r.Intn(5)] += 1 }, func() { d.Tiles = d.Tiles[:len(d.Tiles)-1] })
	}
	if len(d.QVs) > 0 {
		opts = append(opts, func() { j := r.Intn(len(d.QVs)); d.QVs[j].VIndex++ }, func() { j := r.Intn(len(d.QVs)); d.QVs[j].Quadkey ^= 1 })
	}
	if len(d.Pts) > 0 && len(d.Ints) > 0 {
		// nudge a point by less than one voxel (a fixed offset would be tens of thousands of
		// voxels at fine zooms)
		hz, vz := d.Ints[0], d.Ints[len(d.Ints)-1]
		if hz >= 0 && hz <= 35 && vz >= 0 && vz <= 35 {
			dl := 0.7 * 360 / float64(pow2(hz))
			da := 0.7 * float64(pow2(25)) / float64(pow2(vz))
			opts = append(opts, func() { j := r.Intn(len(d.Pts)); d.Pts[j][2] += da }, func() { j := r.Intn(len(d.Pts)); d.Pts[j][0] = clamp(d.Pts[j][0]+dl, -179.99, 179.99) })
		}
	}
	if len(opts) == 0 {
		return nil
	}
	opts[r.Intn(len(opts))]()
	if !decoyAffordable(d) {
		return nil
	}
	return d
}

// decoyAffordable rejects nudged calls that are known not to terminate or to explode: the
// layer fit of the corridor does not terminate once the clearance exceeds the distance to the
// far side of a coarse grid.
func decoyAffordable(c *Call) bool {
	if c.Op == "corridor" && len(c.Ints) >= 2 && len(c.Flts) >= 1 {
		hz := c.Ints[0]
		if hz >= 0 && hz < 2 {
			return false
		}
		if hz >= 2 && hz < 8 && c.Flts[0] > 0.4*voxelWidthM(hz, 60) {
			return false
		}
	}
	return true
}

func joinSlash(p []string) string {
	out := ""
	for i, x := range p {
		if i > 0 {
			out += "/"
		}
		out += x
	}
	return out
}

// execDecoy runs an intervening call; its result is irrelevant.
var decoysCutShort int64

func execDecoy(c *Call) {
	if c == nil {
		return
	}
	if spec := opByName[c.Op]; spec != nil {
		// full step budget: unwinding an intervening call in the middle of the library would not
		// be a legal perturbation (it could leave a lock held); cost is bounded by only nudging
		// towards cheaper arguments and by skipping intervening calls in expensive cases
		if o := execRun(spec, c, simrt.NewAscOrder()); o.aborted {
			decoysCutShort++
		}
	}
}

type runOutcome struct {
	res      Result
	canon    []string
	argDiff  string
	order    *simrt.OrderSource
	duration time.Duration
	aborted  bool // cut short by the step budget: no verdict from this run
	steps    int64
}

// stepBudgetPerRun bounds one library execution outside the scheduler (function entries +
// loop iterations of instrumented code). Ordinary runs of the generated workloads stay two
// orders of magnitude below it.
const stepBudgetPerRun = 25_000_000

func argHashes(a *Args) [6]uint64 {
	return [6]uint64{simrt.DeepHash(a.IDsBuf), simrt.DeepHash(a.IDs2Buf), simrt.DeepHash(a.Pts), simrt.DeepHash(a.Tiles), simrt.DeepHash(a.QVs), simrt.DeepHash(a.Ext)}
}

var argNames = [6]string{"first string list (incl. spare capacity)", "second string list (incl. spare capacity)", "points", "tiles", "quadkey/vertical IDs", "extended ID object"}

// execRun runs one call under one order source.
func execRun(spec *OpSpec, call *Call, order *simrt.OrderSource) runOutcome {
	return execRunBudget(spec, call, order, stepBudgetPerRun)
}

func execRunBudget(spec *OpSpec, call *Call, order *simrt.OrderSource, budget int64) runOutcome {
	return execRunFull(spec, call, order, budget, false)
}

// execRunFull: with alias set, list arguments of identical content are one and the same
// slice (same backing array) - "the same list passed twice".
func execRunFull(spec *OpSpec, call *Call, order *simrt.OrderSource, budget int64, alias bool) runOutcome {
	m := NewMaterializer(alias)
	args := m.Build(call)
	before := argHashes(args)
	lens := [2]int{len(args.IDs), len(args.IDs2)}
	t0 := time.Now()
	res, aborted, steps := runUnderScheduler(order, budget, func() Result { return spec.Exec(call, args) })
	out := runOutcome{res: res, order: order, duration: time.Since(t0), aborted: aborted, steps: steps}
	after := argHashes(args)
	for i := range before {
		if before[i] != after[i] {
			out.argDiff = argNames[i]
			break
		}
	}
	if out.argDiff == "" && (len(args.IDs) != lens[0] || len(args.IDs2) != lens[1]) {
		out.argDiff = "slice header"
	}
	out.canon = canonSet(spec, &res)
	return out
}

func sameOutcome(a, b *runOutcome) bool {
	if (a.res.Err == "") != (b.res.Err == "") || (a.res.Panic == "") != (b.res.Panic == "") {
		return false
	}
	if a.res.Err != "" || a.res.Panic != "" {
		// both calls failed: what accompanies an error is not specified (the library itself
		// returns what it had converted so far in some places and nothing in others), so a
		// partial list that differs is not a difference of the result
		return true
	}
	return equalStrings(a.canon, b.canon)
}

// coversBase: every index of the base list occurs in the index map.
func coversBase(idx []int, n int) bool {
	seen := make([]bool, n)
	cnt := 0
	for _, i := range idx {
		if i >= 0 && i < n && !seen[i] {
			seen[i] = true
			cnt++
		}
	}
	return cnt == n
}

func getList(c *Call, name string) int {
	switch name {
	case "ids":
		return len(c.IDs)
	case "ids2":
		return len(c.IDs2)
	case "tiles":
		return len(c.Tiles)
	case "qvs":
		return len(c.QVs)
	}
	return 0
}

// applyIdx builds the perturbed call from the base call and index maps.
func applyIdx(base *Call, idx map[string][]int) *Call {
	c := base.clone()
	for name, ix := range idx {
		switch name {
		case "ids":
			c.IDs = c.IDs[:0:0]
			for _, i := range ix {
				if i < len(base.IDs) {
					c.IDs = append(c.IDs, base.IDs[i])
				}
			}
		case "ids2":
			c.IDs2 = c.IDs2[:0:0]
			for _, i := range ix {
				if i < len(base.IDs2) {
					c.IDs2 = append(c.IDs2, base.IDs2[i])
				}
			}
		case "tiles":
			c.Tiles = c.Tiles[:0:0]
			for _, i := range ix {
				if i < len(base.Tiles) {
					c.Tiles = append(c.Tiles, base.Tiles[i])
				}
			}
		case "qvs":
			c.QVs = c.QVs[:0:0]
			for _, i := range ix {
				if i < len(base.QVs) {
					c.QVs = append(c.QVs, base.QVs[i])
				}
			}
		}
	}
	return c
}

// drawPerturbation: index maps for every permutable list of the op.
func drawPerturbation(r *simrt.Rand, spec *OpSpec, base *Call) (string, map[string][]int) {
	if len(spec.Lists) == 0 {
		return "none", nil
	}
	kind := []string{"none", "permute", "duplicate", "both"}[r.Intn(4)]
	if kind == "none" {
		return kind, nil
	}
	idx := map[string][]int{}
	for _, name := range spec.Lists {
		n := getList(base, name)
		ix := make([]int, n)
		for i := range ix {
			ix[i] = i
		}
		if kind == "duplicate" || kind == "both" {
			extra := 1 + r.Intn(3)
			for e := 0; e < extra && n > 0; e++ {
				src := r.Intn(n)
				pos := r.Intn(len(ix) + 1)
				ix = append(ix, 0)
				copy(ix[pos+1:], ix[pos:])
				ix[pos] = src
			}
		}
		if kind == "permute" || kind == "both" {
			p := r.Perm(len(ix))
			q := make([]int, len(ix))
			for i, j := range p {
				q[i] = ix[j]
			}
			ix = q
		}
		idx[name] = ix
	}
	return kind, idx
}

// evalC16 executes a replay description and returns the violated clauses.
func evalC16(rp *C16Replay) (clauses map[string]string, ref, run runOutcome) {
	clauses = map[string]string{}
	spec := opByName[rp.Base.Op]
	if spec == nil {
		clauses["error"] = "unknown op " + rp.Base.Op
		return
	}
	simrt.RestoreGlobals()
	ref = execRun(spec, rp.Base, simrt.NewAscOrder())
	for _, h := range rp.History {
		execDecoy(h.Decoy)
		execRun(spec, applyIdx(rp.Base, h.ListIdx), simrt.NewReplayOrder(h.Decisions))
	}
	execDecoy(rp.Decoy)
	pc := applyIdx(rp.Base, rp.ListIdx)
	run = execRunFull(spec, pc, simrt.NewReplayOrder(rp.Decisions), stepBudgetPerRun, rp.Alias)
	checkPair(spec, rp.Pert, &ref, &run, clauses)
	return
}

func checkPair(spec *OpSpec, pert string, ref, run *runOutcome, clauses map[string]string) {
	if !sameOutcome(ref, run) {
		a, b := setDiff(ref.canon, run.canon)
		d := fmt.Sprintf("reference: %d elements err=%q panic=%q; run: %d elements err=%q panic=%q; only in reference %v; only in run %v",
			len(ref.canon), ref.res.Err, ref.res.Panic, len(run.canon), run.res.Err, run.res.Panic, head(a, 5), head(b, 5))
		switch pert {
		case "none":
			clauses["a-same-arguments-different-set"] = d
		case "permute":
			clauses["b-permuted-input-different-set"] = d
		default:
			clauses["b-repeated-entries-different-set"] = d
		}
	}
	for _, o := range []*runOutcome{ref, run} {
		if spec.Dedup && o.res.Err == "" {
			if e := dupOf(spec, &o.res); e != "" {
				clauses["c-duplicate-in-result"] = "element returned twice: " + e
			}
		}
		if o.argDiff != "" {
			clauses["d-input-modified"] = "argument changed by the call: " + o.argDiff
		}
	}
}

func (w *Worker) runC16Case(idx int64) {
	g := &Gen{R: simrt.NewRand(simrt.Mix(w.Seed, uint64(idx), 16)), Deep: w.Tier == "thorough"}
	// operation choice
	tot := 0
	var ops []*OpSpec
	for _, o := range catalogue {
		if o.SetOp {
			ops = append(ops, o)
			tot += o.Weight
		}
	}
	x := g.R.Intn(tot)
	var spec *OpSpec
	for _, o := range ops {
		if x < o.Weight {
			spec = o
			break
		}
		x -= o.Weight
	}
	base := spec.Gen(g)
	trace("C16 case %d: %s", idx, fmtCall(base))
	weights := swarmWeights(g.R)
	w.St.Cases++
	w.St.OpCount[spec.Name]++
	resetInputBufs()
	simrt.RestoreGlobals() // every case starts from the package state of a fresh process

	ref := execRun(spec, base, simrt.NewAscOrder())
	w.St.Evaluations++
	w.mergeOrderStats(ref.order)
	if ref.steps > w.St.Extra["worst_steps_per_run"] {
		w.St.Extra["worst_steps_per_run"] = ref.steps
	}
	if ref.aborted {
		w.St.Probes["runs_cut_short_by_step_budget"]++
		w.recordCase(idx, hashCall(base))
		return
	}
	caseHash := hashCall(base) ^ hashStrings(ref.canon...)
	w.probesC16(spec, base, &ref)

	// same schedule twice: anything that differs here is nondeterminism the simulator does not own
	ref2 := execRun(spec, base, simrt.NewAscOrder())
	w.St.Evaluations++
	w.St.FaultKinds["repeat_call"]++
	if !ref2.aborted && !sameOutcome(&ref, &ref2) && !w.classSeen("C16", spec.Name, "a-same-schedule-different-set") {
		rp := &C16Replay{Base: base, Pert: "none", Clause: "a-same-schedule-different-set"}
		w.report(&Violation{Property: "C16", Clause: rp.Clause, Op: spec.Name, Seed: w.Seed, Case: idx,
			Detail: "two runs with identical arguments and identical (canonical) map orders returned different sets", Replay: mustJSON(rp)})
	}

	history := []C16Step{{Pert: "none"}} // the same-schedule repeat above
	K := w.K
	if ref.steps > 3_000_000 { // step counts, not wall time: the case content must not depend on load
		K = 2 // an expensive case: fewer schedules, so that the case stays within its time box
		w.St.Probes["expensive_cases_with_reduced_K"]++
	}
	for k := 1; k <= K; k++ {
		pert, lidx := drawPerturbation(g.R, spec, base)
		var decoy *Call
		if g.R.Chance(1, 3) && ref.steps < 200_000 {
			if decoy = decoyOf(g.R, base); decoy != nil {
				execDecoy(decoy)
				w.St.Evaluations++
				w.St.FaultKinds["intervening_call_on_related_arguments"]++
			}
		}
		pc := applyIdx(base, lidx)
		order := simrt.NewGenOrder(simrt.Mix(w.Seed, uint64(idx), uint64(k), 1600), weights)
		alias := len(pc.IDs) > 0 && equalStrings(pc.IDs, pc.IDs2) && g.R.Chance(1, 2)
		run := execRunFull(spec, pc, order, stepBudgetPerRun, alias)
		if alias {
			w.St.FaultKinds["same_slice_passed_as_both_list_arguments"]++
		}
		w.St.Evaluations++
		w.mergeOrderStats(order)
		if run.aborted {
			w.St.Probes["runs_cut_short_by_step_budget"]++
			continue
		}
		switch pert {
		case "permute":
			w.St.FaultKinds["input_permutation"]++
		case "duplicate":
			w.St.FaultKinds["input_duplication"]++
		case "both":
			w.St.FaultKinds["input_permutation"]++
			w.St.FaultKinds["input_duplication"]++
		default:
			w.St.FaultKinds["repeat_call"]++
		}
		dh := hashDecisions(order.Decisions)
		if order.NonAsc > 0 || pert != "none" {
			w.addNontrivial(hashCall(pc) ^ dh*31 ^ hashStrings(spec.Name))
		}
		caseHash = caseHash*1099511628211 ^ dh ^ hashStrings(run.canon...) ^ hashCall(pc)
		clauses := map[string]string{}
		checkPair(spec, pert, &ref, &run, clauses)
		for _, cl := range sortedKeys(clauses) {
			if w.classSeen("C16", spec.Name, cl) {
				w.report(&Violation{Property: "C16", Op: spec.Name, Clause: cl})
				continue
			}
			rp := &C16Replay{Base: base, Pert: pert, ListIdx: lidx, Decisions: order.Decisions, Clause: cl, Decoy: decoy, Alias: alias, History: append([]C16Step{}, history...)}
			rp, note := shrinkC16(rp)
			v := &Violation{Property: "C16", Clause: cl, Op: spec.Name, Seed: w.Seed, Case: idx, Detail: clauses[cl],
				Sites: w.siteNames(rp.Decisions), Replay: mustJSON(rp), Shrunk: note}
			if cs, _, _ := evalC16(rp); cs[cl] != "" {
				v.Detail = cs[cl]
			}
			w.report(v)
		}
		history = append(history, C16Step{Pert: pert, ListIdx: lidx, Decisions: order.Decisions, Decoy: decoy})
		if k == 1 && len(w.St.Samples) < 3 && w.W == 0 {
			w.St.Samples = append(w.St.Samples, map[string]any{"case": idx, "base_call": base, "perturbation": pert, "list_index_maps": lidx,
				"seam_decisions": head2(order.Decisions, 8), "seam_visits": order.Visits, "result_elements": len(run.canon), "equal_to_reference": sameOutcome(&ref, &run)})
		}
	}
	if decoysCutShort > 0 {
		w.St.Probes["intervening_calls_cut_short_by_step_budget"] += decoysCutShort
		decoysCutShort = 0
	}
	w.recordCase(idx, caseHash)
}

func head2(d []simrt.Decision, n int) []simrt.Decision {
	if len(d) > n {
		return d[:n]
	}
	return d
}

func (w *Worker) probesC16(spec *OpSpec, base *Call, ref *runOutcome) {
	p := w.St.Probes
	// input-shape probes: the rare configurations the generators are meant to reach
	if len(base.IDs) > 0 {
		minZ, maxZ := int64(99), int64(-1)
		seen := map[string]bool{}
		dup, neg, edge := false, false, false
		for _, id := range base.IDs {
			a := parseInts(id)
			if len(a) < 4 {
				continue
			}
			if a[0] < minZ {
				minZ = a[0]
			}
			if a[0] > maxZ {
				maxZ = a[0]
			}
			if seen[id] {
				dup = true
			}
			seen[id] = true
			if a[len(a)-1] < 0 || (len(a) == 4 && a[1] < 0) {
				neg = true
			}
			if len(a) == 5 && (a[1] <= 1 || a[1] >= pow2(a[0])-2) {
				edge = true
			}
		}
		if maxZ-minZ >= 2 {
			p["input_list_with_zoom_spread_ge_2"]++
		}
		if dup {
			p["base_list_with_repeated_entries"]++
		}
		if neg {
			p["input_with_negative_vertical_index"]++
		}
		if edge {
			p["input_next_to_the_wraparound_column"]++
		}
	}
	if len(base.Tiles) > 1 {
		hz := map[int64]bool{}
		for _, t := range base.Tiles {
			hz[t[0]] = true
		}
		if len(hz) > 1 {
			p["tile_list_mixing_horizontal_zooms"]++
		}
	}
	if len(base.QVs) > 1 {
		qz := map[int64]bool{}
		for _, q := range base.QVs {
			qz[q.QZoom] = true
		}
		if len(qz) > 1 {
			p["quadkey_list_mixing_zooms"]++
		}
		if base.QVs[0].MaxH > base.QVs[0].MinH {
			p["quadkey_height_range_mode"]++
		}
	}
	if len(base.IDs) > 0 && equalStrings(base.IDs, base.IDs2) {
		p["both_list_arguments_equal"]++
	}
	switch spec.Name {
	case "merge_ext", "merge":
		in := map[string]bool{}
		for _, id := range base.IDs {
			in[id] = true
		}
		merged, kept := 0, 0
		for _, id := range ref.res.Raw {
			if in[id] {
				kept++
			} else {
				merged++
			}
		}
		if merged > 0 && kept > 0 {
			p["merge_with_merged_and_unmerged_groups"]++
		}
		if merged > 0 {
			p["merge_fired"]++
		}
	case "overlap_ext_arr", "overlap_sp_arr":
		if ref.res.Aux == "true" {
			p["array_overlap_true"]++
		} else {
			p["array_overlap_false"]++
		}
	case "ext_to_qv", "sp_to_qv", "ext_to_qalt":
		if len(ref.res.Raw) < len(base.IDs) && ref.res.Err == "" {
			p["key_conversion_input_fully_claimed_by_earlier_input"]++
		}
	case "corridor":
		if len(ref.res.Raw) > 1 {
			p["corridor_with_added_voxels"]++
		}
	}
	if ref.res.Err != "" {
		p["reference_returned_error"]++
	}
	if ref.res.Panic != "" {
		p["reference_panicked"]++
	}
}

// shrinkC16 minimises a counterexample structurally: fewer seam decisions, shorter lists,
// simpler perturbation, as long as the same clause stays violated.
func shrinkC16(rp *C16Replay) (*C16Replay, string) {
	target := rp.Clause
	budget := 150
	deadline := time.Now().Add(40 * time.Second)
	fails := func(c *C16Replay) bool {
		if budget <= 0 || time.Now().After(deadline) {
			return false
		}
		budget--
		cs, _, _ := evalC16(c)
		return cs[target] != ""
	}
	if !fails(rp) {
		return rp, "not reproducible at shrink time"
	}
	cur := rp
	steps := 0
	// 0. history: all earlier runs at once, then one by one; the intervening call
	if len(cur.History) > 0 {
		c := *cur
		c.History = nil
		if fails(&c) {
			cur = &c
			steps++
		}
	}
	for i := 0; i < len(cur.History); {
		c := *cur
		c.History = append(append([]C16Step{}, cur.History[:i]...), cur.History[i+1:]...)
		if fails(&c) {
			cur = &c
			steps++
		} else {
			i++
		}
	}
	if cur.Decoy != nil {
		c := *cur
		c.Decoy = nil
		if fails(&c) {
			cur = &c
			steps++
		}
	}
	// 1. seam decisions: drop halves, then singles
	for chunk := (len(cur.Decisions) + 1) / 2; chunk >= 1; chunk /= 2 {
		for i := 0; i+chunk <= len(cur.Decisions); {
			c := *cur
			c.Decisions = append(append([]simrt.Decision{}, cur.Decisions[:i]...), cur.Decisions[i+chunk:]...)
			if fails(&c) {
				cur = &c
				steps++
			} else {
				i += chunk
			}
		}
		if chunk == 1 {
			break
		}
	}
	// 2. perturbation: try none
	if cur.Pert != "none" {
		c := *cur
		c.Pert, c.ListIdx = "none", nil
		if cs, _, _ := evalC16(&c); len(cs) > 0 {
			// a different clause name (a- instead of b-) — only accept if the target itself persists
			_ = cs
		}
	}
	// 3. list elements of the base call
	spec := opByName[cur.Base.Op]
	if spec != nil {
		for _, name := range spec.Lists {
			for i := 0; i < getList(cur.Base, name); {
				if getList(cur.Base, name) <= 1 {
					break
				}
				c := *cur
				c.Base = dropElem(cur.Base, name, i)
				c.ListIdx = dropIdx(cur.ListIdx, name, i)
				c.History = nil
				for _, h := range cur.History {
					h.ListIdx = dropIdx(h.ListIdx, name, i)
					c.History = append(c.History, h)
				}
				if fails(&c) {
					cur = &c
					steps++
				} else {
					i++
				}
			}
		}
		// 4. entries of the index maps (repeated entries that are not needed)
		for _, name := range sortedKeys(cur.ListIdx) {
			for i := 0; i < len(cur.ListIdx[name]); {
				if len(cur.ListIdx[name]) <= 1 {
					break
				}
				c := *cur
				c.ListIdx = map[string][]int{}
				for k, v := range cur.ListIdx {
					c.ListIdx[k] = append([]int{}, v...)
				}
				c.ListIdx[name] = append(c.ListIdx[name][:i], c.ListIdx[name][i+1:]...)
				if !coversBase(c.ListIdx[name], getList(c.Base, name)) {
					// the perturbed list must stay a permutation (with repetitions) of the whole base
					// list: without this entry an element of the base list would be missing, and the
					// two calls would no longer be about the same set
					i++
					continue
				}
				if fails(&c) {
					cur = &c
					steps++
				} else {
					i++
				}
			}
		}
	}
	// 5. simplify remaining decisions towards "front"
	for i := range cur.Decisions {
		if cur.Decisions[i].Policy == simrt.PolShuffle {
			for _, alt := range []string{simrt.PolDesc, simrt.PolRot} {
				c := *cur
				c.Decisions = append([]simrt.Decision{}, cur.Decisions...)
				c.Decisions[i].Policy, c.Decisions[i].Param = alt, 1
				if fails(&c) {
					cur = &c
					steps++
					break
				}
			}
		}
	}
	return cur, fmt.Sprintf("%d shrink steps, %d seam decisions left (from %d)", steps, len(cur.Decisions), len(rp.Decisions))
}

func dropElem(c *Call, name string, i int) *Call {
	d := c.clone()
	switch name {
	case "ids":
		d.IDs = append(d.IDs[:i], d.IDs[i+1:]...)
	case "ids2":
		d.IDs2 = append(d.IDs2[:i], d.IDs2[i+1:]...)
	case "tiles":
		d.Tiles = append(d.Tiles[:i], d.Tiles[i+1:]...)
	case "qvs":
		d.QVs = append(d.QVs[:i], d.QVs[i+1:]...)
	}
	return d
}

func dropIdx(m map[string][]int, name string, i int) map[string][]int {
	if m == nil {
		return nil
	}
	out := map[string][]int{}
	for k, v := range m {
		if k != name {
			out[k] = append([]int{}, v...)
			continue
		}
		var nv []int
		for _, x := range v {
			if x == i {
				continue
			}
			if x > i {
				x--
			}
			nv = append(nv, x)
		}
		out[k] = nv
	}
	return out
}

// replayC16 re-executes a replay file; returns the violated clause detail ("" if it holds).
func replayC16(raw json.RawMessage) (string, string, error) {
	rp := &C16Replay{}
	if err := json.Unmarshal(raw, rp); err != nil {
		return "", "", err
	}
	if rp.Clause == "a-same-schedule-different-set" {
		spec := opByName[rp.Base.Op]
		if spec == nil {
			return "", "", fmt.Errorf("unknown op")
		}
		first := execRun(spec, rp.Base, simrt.NewAscOrder())
		for i := 0; i < 20; i++ {
			o := execRun(spec, rp.Base, simrt.NewAscOrder())
			if !sameOutcome(&first, &o) {
				return rp.Clause, "same arguments, same map orders, different sets", nil
			}
		}
		return "", "", nil
	}
	cs, _, _ := evalC16(rp)
	if d, ok := cs[rp.Clause]; ok {
		return rp.Clause, d, nil
	}
	// report any other clause too, for the log
	ks := make([]string, 0)
	for k := range cs {
		ks = append(ks, k)
	}
	sort.Strings(ks)
	if len(ks) > 0 {
		return "", "other clauses violated: " + fmt.Sprint(ks), nil
	}
	return "", "", nil
}

// runUnderScheduler executes one library call as the single root task of a scheduler without
// preemptions. Goroutines the library starts become further tasks that run when the caller
// blocks, waits or finishes (deterministically, in creation order) - so a child that needs a
// mutex its parent still holds waits for it instead of deadlocking the process, as it would
// if it were simply run inline at the go statement. With blocking constructs the simulator
// does not own (simrt.RealGo) the call runs outside the scheduler on real goroutines.
func runUnderScheduler(order *simrt.OrderSource, budget int64, f func() Result) (res Result, aborted bool, steps int64) {
	if simrt.RealGo {
		simrt.SetRunOrder(order)
		simrt.SetStepBudget(budget)
		simrt.Active = true
		res = guard(f)
		simrt.Active = false
		simrt.SetRunOrder(nil)
		aborted, steps = simrt.Aborted, simrt.Steps
		simrt.SetStepBudget(0)
		return
	}
	s := simrt.NewSched(nil)
	s.AbortYields = int(budget)
	s.AddTask(func() {
		simrt.CallDepth(1)
		res = guard(f)
		simrt.CallDepth(0)
	}, order)
	simrt.Active = true
	ok := s.Run(60 * time.Second)
	simrt.Active = false
	if s.UnownedSeen || s.Unowned() {
		// goroutines the simulator did not start ran during the call (a dependency started
		// them): this call gives no verdict, and the rest of this process runs the library on
		// real goroutines, outside the scheduler
		simrt.RealGo = true
		return Result{Panic: "run not owned by the simulator"}, true, int64(s.YieldN)
	}
	if !ok || s.Deadlock {
		// stalled or deadlocked among simulated primitives: no result to compare
		return Result{Panic: "run did not finish (stalled or deadlocked)"}, true, int64(s.YieldN)
	}
	return res, s.Overrun, int64(s.YieldN)
}
