package main

import (
	"encoding/json"
	"fmt"
	"os"
	"path/filepath"
	"runtime"
	"sort"
	"strings"
)

var rules = map[string]string{
	"C16": "case = one set-valued operation with arguments drawn from the case PRNG, executed under the canonical map order (reference, twice) and under K simulator-chosen schedules (a policy per seam visit: asc/desc/rot/front/back/shuffle), each with one of: same arguments, permuted list arguments, list arguments with repeated entries, both. A run is non-trivial iff >= 1 seam visit with >= 2 keys got a non-canonical order or a list argument was changed; distinct = distinct hash of (operation, perturbed arguments, decision sequence), counted exactly across workers.",
	"C14": "case = one corridor scenario (segment, radius, zooms) executed as: line query under 2 schedules, corridor with measurement under K schedules, corridor without measurement under K schedules; all pairs compared (clauses 1-7 of DESIGN.md section 4). A case is non-trivial iff the line has >= 2 voxels, radius > 0 and >= 1 voxel was added; distinct = distinct hash of (scenario, schedule decisions of all runs).",
	"C19": "case = 2..6 tasks, each making 1..3 calls on arguments from a shared pool (same backing arrays / objects), run solo and then interleaved by the seeded scheduler with a bounded number of preemptions at yield points (function entries, package-variable accesses, sync operations). An interleaved run is non-trivial iff >= 1 context switch happened strictly inside a library call; distinct = distinct hash of the (task, site) switch sequence plus the call set.",
}

func writeEvidence(f *commonFlags, tot *Stats, wall float64, reported, known []string, laneB, laneR map[string]any) error {
	inv := loadInventory(f.inv)
	cov := map[string]any{
		"evaluations":         tot.Evaluations,
		"distinct_nontrivial": tot.Nontrivial,
		"rule":                rules[f.prop],
		"samples":             tot.Samples,
		"cases":               tot.Cases,
		"operations":          tot.OpCount,
		"fault_kinds":         tot.FaultKinds,
		"probes":              tot.Probes,
		"logical_time_events": tot.LogicalTime,
		"runs_per_hour":       int64(float64(tot.Evaluations) / wall * 3600),
		"cases_per_hour":      int64(float64(tot.Cases) / wall * 3600),
		"seeds_per_hour":      int64(float64(tot.Cases) / wall * 3600), // every case is one derived seed = one exactly repeatable execution
		"simulated_time":      map[string]any{"unit": "logical events (seam visits for C14/C16, yields for C19); the library reads no clock, so there is no simulated wall time", "events": tot.LogicalTime},
		"seeds": map[string]any{"verif_seed": f.seed, "derivation": "case i uses splitmix64-mixed (VERIF_SEED, i, property tag); worker w of W runs cases i = w mod W",
			"first_case": 0, "last_case": tot.Cases - 1},
		"determinism_rechecks": map[string]any{"n": tot.Rechecks, "mismatches": tot.RecheckBad},
		"run_digest":           fmt.Sprintf("%016x", tot.Digest),
		"components_real": []string{"all packages of github.com/trajectoryjp/spatial_id_go/v4 (instrumented scratch copy of /repo's working tree)",
			"closest_go, geodesy_go, multidimensional-radix-tree, wroge/wgs84, mgl64, gonum (unmodified module-cache copies)"},
		"components_stub":            []string{},
		"known_findings_matched":     known,
		"violation_classes":          reported,
		"unorderable_map_key_visits": tot.Unorderable,
		"extra":                      tot.Extra,
		"go_version":                 runtime.Version(),
	}
	if tot.Samples == nil || len(tot.Samples) == 0 {
		cov["samples"] = []any{"no case was executed"}
	}
	if inv != nil {
		var seams, yields, acc, syncs []string
		for _, s := range inv.Sites {
			loc := fmt.Sprintf("%s:%d %s", s.File, s.Line, s.Func)
			switch s.Kind {
			case "maprange":
				seams = append(seams, loc+" range "+s.Note)
			case "access":
				acc = append(acc, loc+" "+s.Note)
			case "sync", "go":
				syncs = append(syncs, loc+" "+s.Note)
			case "enter":
				yields = append(yields, loc)
			}
		}
		var vars []string
		for _, v := range inv.Vars {
			vars = append(vars, fmt.Sprintf("%s %s (%s:%d)", v.Name, v.Type, v.File, v.Line))
		}
		cov["seam_inventory"] = map[string]any{"map_ranges": seams, "package_variable_accesses": acc, "sync_and_go_sites": syncs,
			"function_entry_yield_points": len(yields), "package_level_variables": vars}
		cov["unowned_nondeterminism"] = inv.Unowned
		cov["unsimulated_blocking_constructs"] = inv.Unsim
		if len(tot.APICovered) > 0 {
			covered := map[string]bool{}
			for _, a := range tot.APICovered {
				covered[a] = true
			}
			missing := []string{}
			n := 0
			for _, e := range inv.Exported {
				short := strings.TrimPrefix(e, "github.com/trajectoryjp/spatial_id_go/v4/")
				if strings.HasPrefix(short, "examples/") {
					continue
				}
				n++
				if !covered[short] {
					missing = append(missing, short)
				}
			}
			cov["api_coverage"] = map[string]any{"exported_functions_and_methods": n, "covered_by_catalogue": n - len(missing), "not_covered": missing}
		}
	}
	if laneR != nil {
		cov["lane_r"] = laneR
	}
	if laneB != nil {
		cov["lane_b"] = laneB
		if tot.Evaluations == 0 {
			// lane A was skipped (un-simulated blocking constructs): what was explored is lane B's
			if n, ok := laneB["call_sets"].(int64); ok {
				cov["evaluations"] = n
				cov["distinct_nontrivial"] = n
				cov["samples"] = []any{"lane A skipped; lane B call sets are generated exactly as lane A cases (same generator, same case indices)"}
			}
		}
	}
	if inv != nil && len(inv.Unsim) > 0 {
		cov["real_goroutines_mode"] = "the library uses blocking constructs the simulator does not own: its go statements start real goroutines, replay is not exact for this tree"
	}
	switch f.prop {
	case "C19":
		cov["distinct_interleavings"] = map[string]any{"count": tot.Nontrivial, "measure": "distinct (call set, sequence of (task, yield site) context switches taken inside library calls)"}
	default:
		cov["distinct_schedules"] = map[string]any{"count": tot.Nontrivial, "measure": "distinct (operation/scenario, perturbed arguments, sequence of non-canonical seam decisions)"}
	}
	assume := map[string][]string{
		"C16": {"map iteration order is taken at the level of the Go specification: every permutation is a legal schedule",
			"entries inserted into a map while it is being ranged over are not visited (one of the behaviours the spec allows)",
			"the radix-tree overlap generator keeps only IDs for which the single-ID self check returns without error",
			"for the key conversions the compared set is the union of (quadkey, vertical) pairs plus the parameter tuples; which group reports a pair is not compared",
			"writes into the spare capacity of a caller's slice count as modifying the caller's input",
			"a returned slice is overwritten by the harness after copying (a caller owns its result), unless it aliases an input argument",
			"every library call runs as the root task of a scheduler without preemptions; goroutines the library starts run when the caller blocks, waits or finishes"},
		"C14": {"every permutation of a map's keys is a legal schedule",
			"clause 4 uses the component-wise maximum of the layer counts over the voxels of the line",
			"clause 6 (independent distance) is evaluated only for hZoom >= 10 and |lat| <= 80 and flags only distance > 1.01*radius + 0.05 m",
			"transform.FitClearanceAroundExtendedSpatialID is used as the source of the layer counts, as the property statement does"},
		"C19": {"tasks interleave at yield points only (statement-level atomicity between yields) in lanes A and R; lane B (real goroutines, -race, uninstrumented build) covers intra-statement races and is auxiliary",
			"lane R: the simulated scheduler runs inside a race-detector build of the instrumented copy; hand-offs go through raw pipe system calls (no happens-before edge for the detector), the sync shims perform the simulated operation and then the real one, so the detector judges the library's own synchronisation with the semantics of the real sync package; a report counts only if one of the two access stacks has a frame of the library",
			"package-level state is restored to its start-of-process value before every case, so that first-use (lazy initialisation) windows are re-opened in every case",
			"lane A: a change of package state is a violation only if the writing task performed no synchronisation operation since its call began; whether synchronised accesses are ordered is the race detector's judgement (lanes R and B)",
			"set-valued results are compared as sets when they differ in order only; in lane A a returned slice is overwritten by the harness after copying (a caller owns its result), in lane R it is not",
			"channels the library makes and uses itself are simulated (simulated blocking, then the real operation; rendezvous by out-of-band wake-up); select, sync.Cond, timers, channels that cross the library boundary and calls into dependencies that can start goroutines or block are not simulated: for a tree that uses them lanes A and R are skipped and the verdict is lane B's; the same if goroutines appear that the simulator did not start; a run that stalls anyway ends with exit 2, not with a verdict"},
	}
	ev := map[string]any{
		"property_id": f.prop,
		"tier":        f.tier,
		"seed":        f.seed,
		"level":       "exploration",
		"coverage":    cov,
		"assumptions": assume[f.prop],
		"wall_s":      wall,
		"violations":  len(reported),
	}
	b, err := json.MarshalIndent(ev, "", " ")
	if err != nil {
		return err
	}
	os.MkdirAll(filepath.Dir(f.evidence), 0o755)
	_ = sort.Strings
	return os.WriteFile(f.evidence, b, 0o644)
}
