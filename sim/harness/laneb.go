package main

import (
	"bytes"
	"encoding/json"
	"flag"
	"fmt"
	"os"
	"os/exec"
	"regexp"
	"sort"
	"strconv"
	"strings"
	"sync"
	"time"

	"verif.local/simrt"
)

// Lane B (auxiliary, runtime monitoring - not the deciding step): the same call sets on real
// goroutines against an UNINSTRUMENTED build with the race detector. It covers what
// statement-level atomicity of the simulated scheduler cannot: intra-statement races, races
// on function-local state shared by goroutines the library starts itself, races inside
// dependencies.

type laneBReplay struct {
	// History: the call sets the reporting process had executed before (same process: package
	// state such as pools and caches carries over); Tasks: the call set that was running.
	History [][]C19Task `json:"earlier_call_sets_in_the_same_process,omitempty"`
	Tasks   []C19Task   `json:"tasks"`
	Clause  string      `json:"clause"`
	Seed    uint64      `json:"seed"`
	Case    int64       `json:"case"`
}

func canonResult(spec *OpSpec, r *Result) string {
	s := canonSet(spec, r)
	return strings.Join(s, "\x01") + "|" + r.Aux + "|" + strconv.FormatBool(r.Err != "") + "|" + strconv.FormatBool(r.Panic != "")
}

func laneBCase(tasks []C19Task, rounds int) string {
	mat := NewMaterializer(true)
	args := make([][]*Args, len(tasks))
	for ti, t := range tasks {
		for _, c := range t.Calls {
			args[ti] = append(args[ti], mat.Build(c))
		}
	}
	solo := make([][]string, len(tasks))
	for ti, t := range tasks {
		for ci, c := range t.Calls {
			spec := opByName[c.Op]
			res := guard(func() Result { return spec.Exec(c, args[ti][ci]) })
			solo[ti] = append(solo[ti], canonResult(spec, &res))
		}
	}
	before := simrt.DeepHash(args)
	for round := 0; round < rounds; round++ {
		got := make([][]string, len(tasks))
		var wg sync.WaitGroup
		start := make(chan struct{})
		for ti := range tasks {
			ti := ti
			got[ti] = make([]string, len(tasks[ti].Calls))
			wg.Add(1)
			go func() {
				defer wg.Done()
				<-start
				for ci, c := range tasks[ti].Calls {
					spec := opByName[c.Op]
					res := guard(func() Result { return spec.Exec(c, args[ti][ci]) })
					got[ti][ci] = canonResult(spec, &res)
				}
			}()
		}
		close(start)
		wg.Wait()
		for ti := range tasks {
			for ci := range tasks[ti].Calls {
				if got[ti][ci] != solo[ti][ci] {
					return fmt.Sprintf("task %d call %d (%s) returned a different set when run concurrently", ti, ci, tasks[ti].Calls[ci].Op)
				}
			}
		}
	}
	if simrt.DeepHash(args) != before {
		return "a shared argument object was modified"
	}
	return ""
}

func laneBMain(argv []string) int {
	fs := flag.NewFlagSet("laneb", flag.ExitOnError)
	seed := fs.Uint64("seed", 1, "")
	from := fs.Int64("from", 0, "")
	to := fs.Int64("to", 0, "")
	step := fs.Int64("step", 1, "")
	file := fs.String("file", "", "replay file")
	rounds := fs.Int("rounds", 3, "")
	budget := fs.Duration("budget", time.Hour, "")
	fs.Parse(argv)
	if *file != "" {
		b, err := os.ReadFile(*file)
		if err != nil {
			fmt.Println("ERROR:", err)
			return 2
		}
		var doc struct {
			Replay laneBReplay `json:"replay"`
		}
		if err := json.Unmarshal(b, &doc); err != nil {
			fmt.Println("ERROR:", err)
			return 2
		}
		for _, h := range doc.Replay.History {
			if d := laneBCase(h, *rounds); d != "" {
				fmt.Println("LANEB-MISMATCH (in an earlier call set)", d)
				return 1
			}
		}
		for i := 0; i < 5; i++ {
			if d := laneBCase(doc.Replay.Tasks, *rounds); d != "" {
				fmt.Println("LANEB-MISMATCH", d)
				return 1
			}
		}
		return 0
	}
	deadline := time.Now().Add(*budget)
	n := 0
	for idx := *from; idx < *to; idx += *step {
		if time.Now().After(deadline) {
			break
		}
		fmt.Fprintf(os.Stderr, "CASE %d\n", idx)
		g := &Gen{R: simrt.NewRand(simrt.Mix(*seed, uint64(idx), 19))}
		tasks := genC19Tasks(g, *seed, idx)
		if d := laneBCase(tasks, *rounds); d != "" {
			fmt.Fprintf(os.Stderr, "LANEB-MISMATCH case=%d %s\n", idx, d)
			return 1
		}
		n++
	}
	fmt.Printf("{\"cases\": %d}\n", n)
	return 0
}

var caseRe = regexp.MustCompile(`CASE (\d+)`)

func runLaneB(f *commonFlags, scratch string) (map[string]any, []*Violation, int) {
	cases := int64(1600)
	budget := 120 * time.Second // a cap, not a target: 1600 call sets take about 10 s on an idle machine
	if f.tier == "thorough" {
		cases, budget = 1<<40, 3*time.Minute
	}
	if v := os.Getenv("VERIF_LANEB_CASES"); v != "" {
		cases, _ = strconv.ParseInt(v, 10, 64)
	}
	type res struct {
		code     int
		out      string
		n        int64
		procs    int
		from, to int64
	}
	rs := make([]res, f.workers)
	var wg sync.WaitGroup
	env := append(os.Environ(), "GORACE=halt_on_error=1 exitcode=66", "GOMAXPROCS=4")
	t0 := time.Now()
	// Each lane-B process handles a short slice of cases and exits: package-level state of the
	// uninstrumented build cannot be reset, so "first use in this process" windows (lazy
	// tables, cold caches) are re-opened by starting over.
	const slice = 8
	deadline := time.Now().Add(budget)
	for i := 0; i < f.workers; i++ {
		wg.Add(1)
		go func(i int) {
			defer wg.Done()
			rs[i].code = 0
			for from := int64(i) * slice; from < cases && time.Now().Before(deadline); from += int64(f.workers) * slice {
				to := from + slice
				if to > cases {
					to = cases
				}
				cmd := exec.Command(f.laneB, "laneb", "-seed", fmt.Sprint(f.seed), "-from", fmt.Sprint(from), "-to", fmt.Sprint(to), "-step", "1", "-budget", time.Until(deadline).String())
				var so, se bytes.Buffer
				cmd.Stdout, cmd.Stderr = &so, &se
				cmd.Env = env
				err := cmd.Run()
				code := 0
				if ee, ok := err.(*exec.ExitError); ok {
					code = ee.ExitCode()
				} else if err != nil {
					code = 2
				}
				var n struct{ Cases int64 }
				json.Unmarshal(so.Bytes(), &n)
				rs[i].n += n.Cases
				rs[i].procs++
				if code != 0 {
					rs[i].code, rs[i].out, rs[i].from, rs[i].to = code, se.String(), from, to
					return
				}
			}
		}(i)
	}
	wg.Wait()
	info := map[string]any{"note": "auxiliary lane: real goroutines, uninstrumented build, Go race detector; runtime monitoring, not simulation; not the deciding step",
		"goroutines_per_call_set": "2..6", "rounds_per_call_set": 3, "wall_s": time.Since(t0).Seconds()}
	var total int64
	unrepro := 0
	procs := 0
	for _, r := range rs {
		procs += r.procs
	}
	info["processes"] = procs
	info["call_sets_per_process"] = 8
	var viol []*Violation
	reports := 0
	for i, r := range rs {
		total += r.n
		if r.code == 0 {
			continue
		}
		if r.code != 66 && r.code != 1 {
			fmt.Printf("ERROR: lane-B worker %d exited with %d\n%s\n", i, r.code, tail(r.out, 30))
			return info, nil, 2
		}
		reports++
		ms := caseRe.FindAllStringSubmatch(r.out, -1)
		if len(ms) == 0 {
			fmt.Printf("ERROR: lane-B worker %d reported without a case marker\n%s\n", i, tail(r.out, 30))
			return info, nil, 2
		}
		idx, _ := strconv.ParseInt(ms[len(ms)-1][1], 10, 64)
		clause := "laneB-data-race"
		if r.code == 1 {
			clause = "laneB-result-differs"
		}
		// must reproduce in a fresh process within 5 attempts; the process replays the same
		// slice of call sets, because package state (pools, caches) carries over between them
		ok := false
		var rep string
		for a := 0; a < 5 && !ok; a++ {
			cmd := exec.Command(f.laneB, "laneb", "-seed", fmt.Sprint(f.seed), "-from", fmt.Sprint(r.from), "-to", fmt.Sprint(idx+1), "-rounds", "6")
			cmd.Env = env
			out, err := cmd.CombinedOutput()
			if ee, isExit := err.(*exec.ExitError); isExit && (ee.ExitCode() == 66 || ee.ExitCode() == 1) {
				ok = true
				rep = string(out)
			}
		}
		if !ok {
			// lane B is auxiliary: a report that does not reproduce is dropped loudly, and the run
			// ends without a verdict unless lane A confirmed something
			fmt.Printf("note: lane-B report for call set %d did not reproduce in a fresh process (5 attempts); dropped\n%s\n", idx, tail(r.out, 12))
			unrepro++
			continue
		}
		var hist [][]C19Task
		for h := r.from; h < idx; h++ {
			hg := &Gen{R: simrt.NewRand(simrt.Mix(f.seed, uint64(h), 19))}
			hist = append(hist, genC19Tasks(hg, f.seed, h))
		}
		g := &Gen{R: simrt.NewRand(simrt.Mix(f.seed, uint64(idx), 19))}
		tasks := genC19Tasks(g, f.seed, idx)
		viol = append(viol, &Violation{Property: "C19", Clause: clause, Op: "concurrent", Seed: f.seed, Case: idx, Count: 1,
			Detail: "lane B (real goroutines, -race): " + firstLines(rep, 14), Replay: mustJSON(&laneBReplay{History: hist, Tasks: tasks, Clause: clause, Seed: f.seed, Case: idx})})
	}
	info["call_sets"] = total
	info["reports"] = reports
	info["reports_not_reproduced"] = unrepro
	if unrepro > 0 && len(viol) == 0 {
		return info, nil, 3 // caller: no verdict unless lane A confirmed something
	}
	sort.Slice(viol, func(i, j int) bool { return viol[i].Case < viol[j].Case })
	return info, viol, 0
}

func firstLines(s string, n int) string {
	l := strings.Split(s, "\n")
	var keep []string
	for _, x := range l {
		if strings.HasPrefix(x, "CASE ") {
			continue
		}
		keep = append(keep, x)
		if len(keep) >= n {
			break
		}
	}
	return strings.Join(keep, " | ")
}
