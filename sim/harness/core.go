package main

import (
	"encoding/binary"
	"encoding/json"
	"fmt"
	"hash/fnv"
	"os"
	"sort"
	"strings"
	"time"

	"verif.local/simrt"
)

// Violation is one replay-able counterexample found by a worker.
type Violation struct {
	Property string          `json:"property"`
	Clause   string          `json:"clause"`
	Op       string          `json:"op"`
	Seed     uint64          `json:"seed"`
	Case     int64           `json:"case"`
	Detail   string          `json:"detail"`
	Sites    []string        `json:"sites,omitempty"` // file:line of the seam / yield sites of the minimised schedule
	Replay   json.RawMessage `json:"replay"`
	Shrunk   string          `json:"shrunk,omitempty"`
	Count    int             `json:"count"` // how many cases of this worker hit the same class
}

func (v *Violation) ClassKey() string { return v.Property + "|" + v.Op + "|" + v.Clause }

// Stats is what a worker reports; the driver sums them.
type Stats struct {
	Property    string           `json:"property"`
	Cases       int64            `json:"cases"`
	Evaluations int64            `json:"evaluations"` // library executions under a simulator-chosen schedule
	Nontrivial  int64            `json:"nontrivial"`
	FaultKinds  map[string]int64 `json:"fault_kinds"`
	Probes      map[string]int64 `json:"probes"`
	OpCount     map[string]int64 `json:"op_count"`
	Samples     []any            `json:"samples"`
	Violations  []*Violation     `json:"violations"`
	Digest      uint64           `json:"digest"` // order-independent digest of all case hashes
	LogicalTime int64            `json:"logical_time_events"`
	Rechecks    int64            `json:"determinism_rechecks"`
	RecheckBad  int64            `json:"determinism_mismatches"`
	SimSeconds  float64          `json:"busy_seconds"`
	Unorderable int64            `json:"unorderable_map_keys"`
	Errors      []string         `json:"errors,omitempty"`
	APICovered  []string         `json:"api_covered,omitempty"`
	Extra       map[string]int64 `json:"extra,omitempty"`
}

func newStats(p string) *Stats {
	return &Stats{Property: p, FaultKinds: map[string]int64{}, Probes: map[string]int64{}, OpCount: map[string]int64{}, Extra: map[string]int64{}}
}

// worker context
type Worker struct {
	Prop      string
	Tier      string
	Seed      uint64
	W, N      int
	Deadline  time.Time
	MaxCases  int64
	St        *Stats
	hashes    map[uint64]struct{}
	caseLog   *os.File
	seenClass map[string]*Violation
	curCase   int64
	caseStart time.Time
	inv       *Inventory
	K         int
	stop      bool
	violLog   *os.File
}

func (w *Worker) addNontrivial(h uint64) {
	if _, ok := w.hashes[h]; !ok {
		w.hashes[h] = struct{}{}
	}
}

func (w *Worker) recordCase(idx int64, h uint64) {
	w.St.Digest += h*0x9e3779b97f4a7c15 + 1
	if w.caseLog != nil {
		fmt.Fprintf(w.caseLog, "%d %016x\n", idx, h)
	}
}

func (w *Worker) report(v *Violation) {
	k := v.ClassKey()
	if old, ok := w.seenClass[k]; ok {
		old.Count++
		return
	}
	v.Count = 1
	w.seenClass[k] = v
	w.St.Violations = append(w.St.Violations, v)
	// stream it out at once: a later crash of this worker (the code under test may exhaust
	// memory once its state is corrupted) must not lose what was already found
	if w.violLog != nil && v.Replay != nil {
		if b, err := json.Marshal(v); err == nil {
			w.violLog.Write(append(b, '\n'))
			w.violLog.Sync()
		}
	}
}

func (w *Worker) classSeen(prop, op, clause string) bool {
	_, ok := w.seenClass[prop+"|"+op+"|"+clause]
	return ok
}

func (w *Worker) mergeOrderStats(o *simrt.OrderSource) {
	if o == nil {
		return
	}
	for k, n := range o.PerSitePol {
		site, pol, _ := strings.Cut(k, ".")
		w.St.FaultKinds["map_order."+w.siteLabel(site)+"."+pol] += int64(n)
		if pol != simrt.PolAsc {
			w.St.Probes["seam_nonasc."+w.siteLabel(site)] += int64(n)
		}
	}
	w.St.LogicalTime += int64(o.Visits)
	w.St.Unorderable += int64(o.Unorderable)
}

func (w *Worker) siteLabel(id string) string {
	if w.inv != nil {
		var n int
		fmt.Sscanf(id, "%d", &n)
		if n >= 0 && n < len(w.inv.Sites) {
			s := w.inv.Sites[n]
			return fmt.Sprintf("%s:%d", s.File, s.Line)
		}
	}
	return "site" + id
}

func (w *Worker) siteNames(ds []simrt.Decision) []string {
	var out []string
	seen := map[int]bool{}
	for _, d := range ds {
		if !seen[d.Site] {
			seen[d.Site] = true
			out = append(out, w.siteLabel(fmt.Sprint(d.Site)))
		}
	}
	return out
}

// Inventory mirrors the instrumenter's output (only what the harness uses).
type Inventory struct {
	Sites []struct {
		ID   int    `json:"id"`
		Kind string `json:"kind"`
		File string `json:"file"`
		Line int    `json:"line"`
		Func string `json:"func"`
		Note string `json:"note"`
	} `json:"sites"`
	Vars []struct {
		ID   int    `json:"id"`
		Name string `json:"name"`
		Type string `json:"type"`
		File string `json:"file"`
		Line int    `json:"line"`
	} `json:"vars"`
	Unowned  []map[string]any `json:"unowned_nondeterminism"`
	Unsim    []map[string]any `json:"unsimulated_blocking"`
	Exported []string         `json:"exported_api"`
	Packages []string         `json:"packages"`
	Files    int              `json:"files"`
}

func loadInventory(path string) *Inventory {
	if path == "" {
		return nil
	}
	b, err := os.ReadFile(path)
	if err != nil {
		return nil
	}
	inv := &Inventory{}
	if json.Unmarshal(b, inv) != nil {
		return nil
	}
	return inv
}

func hashStrings(parts ...string) uint64 {
	h := fnv.New64a()
	for _, p := range parts {
		var l [4]byte
		binary.LittleEndian.PutUint32(l[:], uint32(len(p)))
		h.Write(l[:])
		h.Write([]byte(p))
	}
	return h.Sum64()
}

func hashDecisions(ds []simrt.Decision) uint64 {
	h := fnv.New64a()
	for _, d := range ds {
		fmt.Fprintf(h, "%d/%d/%d/%s/%d;", d.Visit, d.Site, d.N, d.Policy, d.Param)
	}
	return h.Sum64()
}

func hashCall(c *Call) uint64 {
	b, _ := json.Marshal(c)
	h := fnv.New64a()
	h.Write(b)
	return h.Sum64()
}

func mustJSON(v any) json.RawMessage {
	b, err := json.Marshal(v)
	if err != nil {
		panic(err)
	}
	return b
}

func sortedKeys[V any](m map[string]V) []string {
	ks := make([]string, 0, len(m))
	for k := range m {
		ks = append(ks, k)
	}
	sort.Strings(ks)
	return ks
}

// swarmWeights draws the enabled policy subset and weights for one case.
func swarmWeights(r *simrt.Rand) [6]int {
	var w [6]int
	for i := 1; i < 6; i++ {
		if r.Chance(3, 5) {
			w[i] = 1 + r.Intn(4)
		}
	}
	tot := 0
	for _, x := range w {
		tot += x
	}
	if tot == 0 {
		w[1+r.Intn(5)] = 1
		tot = 1
	}
	// share of visits that stay canonical: none, half, or most
	switch r.Intn(3) {
	case 1:
		w[0] = tot
	case 2:
		w[0] = 4 * tot
	}
	return w
}

func setDiff(a, b []string) (onlyA, onlyB []string) {
	ma := map[string]bool{}
	for _, x := range a {
		ma[x] = true
	}
	mb := map[string]bool{}
	for _, x := range b {
		mb[x] = true
		if !ma[x] {
			onlyB = append(onlyB, x)
		}
	}
	for _, x := range a {
		if !mb[x] {
			onlyA = append(onlyA, x)
		}
	}
	return
}

func equalStrings(a, b []string) bool {
	if len(a) != len(b) {
		return false
	}
	for i := range a {
		if a[i] != b[i] {
			return false
		}
	}
	return true
}

var traceOn = os.Getenv("VERIF_TRACE") != ""

func trace(format string, a ...any) {
	if traceOn {
		fmt.Fprintf(os.Stderr, format+"\n", a...)
	}
}

func sortStrings(s []string) { sort.Strings(s) }
