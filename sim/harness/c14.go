package main

import (
	"encoding/json"
	"fmt"
	"math"
	"time"

	"github.com/go-gl/mathgl/mgl64"
	closest "github.com/trajectoryjp/closest_go"
	geodesy "github.com/trajectoryjp/geodesy_go/coordinates"
	"github.com/trajectoryjp/spatial_id_go/v4/common/enum"
	"github.com/trajectoryjp/spatial_id_go/v4/common/object"
	"github.com/trajectoryjp/spatial_id_go/v4/shape"
	"github.com/trajectoryjp/spatial_id_go/v4/transform"
	"verif.local/simrt"
)

type C14Scenario struct {
	Start  [3]float64 `json:"start"`
	End    [3]float64 `json:"end"`
	Radius float64    `json:"radius"`
	HZ     int64      `json:"hzoom"`
	VZ     int64      `json:"vzoom"`
	Kind   string     `json:"radius_kind,omitempty"`
}

// C14Run is one library execution of a case: the line query, or the corridor query with
// the distance measurement enabled ("measured") or skipped ("skipped").
type C14Run struct {
	Kind      string           `json:"kind"`
	Decisions []simrt.Decision `json:"seam_decisions"`
	// Decoy, if present, is a related scenario queried (same kind of query) right before this
	// run: the history another client of the library would create.
	Decoy    *C14Scenario `json:"preceded_by,omitempty"`
	order    *simrt.OrderSource
	ids      []string
	set      map[string]bool
	err      string
	panicked string
	aborted  bool
	steps    int64
	budget   int64
	skipped  bool
}

type C14Replay struct {
	Scenario C14Scenario `json:"scenario"`
	Runs     []*C14Run   `json:"runs"`
	Clause   string      `json:"clause"`
}

func (sc *C14Scenario) points() (*object.Point, *object.Point, error) {
	a, err := object.NewPoint(sc.Start[0], sc.Start[1], sc.Start[2])
	if err != nil {
		return nil, nil, err
	}
	b, err := object.NewPoint(sc.End[0], sc.End[1], sc.End[2])
	return a, b, err
}

func (sc *C14Scenario) exec(r *C14Run) {
	a, b, err := sc.points()
	if err != nil {
		r.err = "NewPoint: " + err.Error()
		return
	}
	if r.budget == 0 {
		r.budget = stepBudgetPerRun
	}
	res, aborted, steps := runUnderScheduler(r.order, r.budget, func() Result {
		var ids []string
		var e error
		switch r.Kind {
		case "line":
			ids, e = shape.GetExtendedSpatialIdsOnLine(a, b, sc.HZ, sc.VZ)
		case "measured":
			ids, e = transform.GetExtendedSpatialIdsWithinRadiusOfLine(a, b, sc.Radius, sc.HZ, sc.VZ, false)
		case "skipped":
			ids, e = transform.GetExtendedSpatialIdsWithinRadiusOfLine(a, b, sc.Radius, sc.HZ, sc.VZ, true)
		}
		return strs(ids, e) // copies, then overwrites the returned slice: the caller owns it
	})
	r.ids, r.err, r.panicked = res.Raw, res.Err, res.Panic
	r.aborted = aborted
	r.steps = steps
	r.set = map[string]bool{}
	for _, id := range r.ids {
		r.set[id] = true
	}
}

func (sc *C14Scenario) valid() bool {
	return sc.Radius >= 0 && sc.HZ >= 0 && sc.HZ <= 35 && sc.VZ >= 0 && sc.VZ <= 35
}

type c14Info struct {
	lineN, added                    int
	layerDisagree                   bool
	measuredProper                  bool
	rejected                        bool
	nearBand                        int
	clause6Evaluated                int
	H, V                            int64
	worstRatio                      float64
	worstExcess                     float64
	worstRatioGeneric, worstRatioEW float64
}

// judgeC14 evaluates every clause over executed runs. Returns clause -> detail.
func judgeC14(sc *C14Scenario, runs []*C14Run) (map[string]string, c14Info) {
	out := map[string]string{}
	var info c14Info
	if !sc.valid() {
		for _, r := range runs {
			if r.Kind == "line" && sc.HZ >= 0 && sc.HZ <= 35 && sc.VZ >= 0 && sc.VZ <= 35 {
				continue // negative radius does not concern the line query
			}
			if r.skipped {
				continue
			}
			if r.err == "" || r.panicked != "" {
				out["7-invalid-input-accepted"] = fmt.Sprintf("%s run with radius=%v hZoom=%d vZoom=%d returned err=%q panic=%q (%d IDs)", r.Kind, sc.Radius, sc.HZ, sc.VZ, r.err, r.panicked, len(r.ids))
			}
		}
		return out, info
	}
	var lines, meas, skip []*C14Run
	for _, r := range runs {
		if r.err != "" || r.panicked != "" || r.aborted || r.skipped {
			continue // outcome on valid input is C15/C16 territory; counted by the caller
		}
		switch r.Kind {
		case "line":
			lines = append(lines, r)
		case "measured":
			meas = append(meas, r)
		case "skipped":
			skip = append(skip, r)
		}
	}
	// clause 1: duplicate-free, requested zooms
	for _, r := range runs {
		if r.err != "" || r.panicked != "" || r.Kind == "line" || r.skipped {
			continue
		}
		if len(r.set) != len(r.ids) {
			seen := map[string]bool{}
			for _, id := range r.ids {
				if seen[id] {
					out["1-duplicate-id"] = fmt.Sprintf("%s result contains %s twice", r.Kind, id)
					break
				}
				seen[id] = true
			}
		}
		for _, id := range r.ids {
			a := parseInts(id)
			if len(a) != 5 || a[0] != sc.HZ || a[3] != sc.VZ {
				out["1-wrong-zoom"] = fmt.Sprintf("%s result contains %s, requested zooms %d/%d", r.Kind, id, sc.HZ, sc.VZ)
				break
			}
		}
	}
	if len(lines) == 0 {
		return out, info
	}
	line := lines[0]
	info.lineN = len(line.set)
	// the line set itself must not depend on the schedule (needed for clause 2 to be well defined)
	for _, l := range lines[1:] {
		if len(l.set) != len(line.set) {
			out["2-line-set-schedule-dependent"] = fmt.Sprintf("line query returned %d and %d IDs under two schedules", len(line.set), len(l.set))
		}
		for id := range l.set {
			if !line.set[id] {
				out["2-line-set-schedule-dependent"] = "line query returned " + id + " under one schedule only"
				break
			}
		}
	}
	// clause 2 / 3
	for _, r := range append(append([]*C14Run{}, meas...), skip...) {
		for id := range line.set {
			if !r.set[id] {
				out["2-line-not-contained"] = fmt.Sprintf("%s result lacks line voxel %s", r.Kind, id)
				break
			}
		}
		if sc.Radius == 0 && len(r.set) != len(line.set) {
			if _, bad := out["2-line-not-contained"]; !bad {
				for id := range r.set {
					if !line.set[id] {
						out["3-radius-zero-not-line"] = fmt.Sprintf("radius 0: %s result has %d IDs, the line %d; extra e.g. %s", r.Kind, len(r.set), len(line.set), id)
						break
					}
				}
			}
		}
		if n := len(r.set) - len(line.set); n > info.added {
			info.added = n
		}
	}
	// clause 5: measured(sigma) subset of skipped(tau) for all pairs
	for _, m := range meas {
		for _, s := range skip {
			for id := range m.set {
				if !s.set[id] {
					out["5-measured-not-subset-of-skipped"] = fmt.Sprintf("%s is in a result with measurement (%d IDs) but not in a result without (%d IDs)", id, len(m.set), len(s.set))
					break
				}
			}
			if len(m.set) < len(s.set) {
				info.measuredProper = true
				info.rejected = true
			}
		}
	}
	// clause 4: layer box (component-wise maximum over the line's voxels)
	if sc.Radius > 0 && (len(meas) > 0 || len(skip) > 0) {
		var H, V int64
		first := true
		type xyz struct{ x, y, z int64 }
		var lv []xyz
		for id := range line.set {
			h, v, err := transform.FitClearanceAroundExtendedSpatialID(id, sc.Radius)
			if err != nil {
				continue
			}
			if !first && (h != H || v != V) {
				info.layerDisagree = true
			}
			first = false
			if h > H {
				H = h
			}
			if v > V {
				V = v
			}
			a := parseInts(id)
			lv = append(lv, xyz{a[1], a[2], a[4]})
		}
		info.H, info.V = H, V
		m := pow2(sc.HZ)
		wrapd := func(a, b int64) int64 {
			d := mod(a-b, m)
			if m-d < d {
				d = m - d
			}
			return d
		}
		for _, r := range append(append([]*C14Run{}, meas...), skip...) {
			bad := ""
			for id := range r.set {
				if line.set[id] {
					continue
				}
				a := parseInts(id)
				if len(a) != 5 {
					continue
				}
				ok := false
				for _, l := range lv {
					dz := a[4] - l.z
					if dz < 0 {
						dz = -dz
					}
					if wrapd(a[1], l.x) <= H && wrapd(a[2], l.y) <= H && dz <= V {
						ok = true
						break
					}
				}
				if !ok {
					bad = id
					break
				}
			}
			if bad != "" {
				out["4-outside-layer-box"] = fmt.Sprintf("%s result contains %s, which is no shift of a line voxel by |dx|,|dy| <= %d and |dv| <= %d (largest layer counts FitClearance reports along the line)", r.Kind, bad, H, V)
			}
		}
	}
	// clause 6: independent distance of every voxel added with measurement
	if sc.Radius > 0 && sc.HZ >= 10 && math.Abs(sc.Start[1]) <= 80 && math.Abs(sc.End[1]) <= 80 {
		p, q := ecef(sc.Start[0], truncLat(sc.Start[1]), 0), ecef(sc.End[0], truncLat(sc.End[1]), 0)
		cache := map[[2]int64]float64{}
		cachePoly := map[[2]int64]float64{}
		for _, r := range meas {
			for id := range r.set {
				if line.set[id] {
					continue
				}
				a := parseInts(id)
				if len(a) != 5 || a[0] != sc.HZ {
					continue
				}
				k := [2]int64{a[1], a[2]}
				d, ok := cache[k]
				if !ok {
					d = segFootprintDist(p, q, footprintCorners(sc.HZ, a[1], a[2]))
					cache[k] = d
					info.clause6Evaluated++
					ratio := d / sc.Radius
					if ratio > info.worstRatio {
						info.worstRatio = ratio
					}
					if ratio > 0.95 {
						info.nearBand++
					}
					if ex := d - sc.Radius; ex > info.worstExcess {
						info.worstExcess = ex
					}
					if sc.Start[1] != sc.End[1] && sc.Radius >= 0.5 && ratio > info.worstRatioGeneric {
						info.worstRatioGeneric = ratio
					}
					if sc.Start[1] == sc.End[1] && sc.Radius >= 0.5 && ratio > info.worstRatioEW {
						info.worstRatioEW = ratio
					}
				}
				if d > 1.01*sc.Radius+0.10 {
					// "The segment" has two legitimate readings for this library: the straight chord
					// between the end points (what the library measures, and what the property's
					// observation note names) and the path the line's own voxels are taken from,
					// linear in longitude/latitude. For long lines they differ by more than the band
					// (the chord of a 580 km line runs 6.6 km under the surface); a voxel is flagged
					// only if it is too far under both.
					if d2, ok2 := cachePoly[k]; ok2 {
						d = math.Min(d, d2)
					} else {
						d2 := polylineFootprintDist(sc, footprintCorners(sc.HZ, a[1], a[2]))
						cachePoly[k] = d2
						d = math.Min(d, d2)
					}
				}
				if d > 1.01*sc.Radius+0.10 {
					if why := gjkDegenerate(sc, id); why != "" {
						// the dependency's distance routine returned closest points that are not on
						// the two bodies: a separate, narrowly recognised class (known finding)
						out["6-farther-than-radius.gjk-degenerate"] = fmt.Sprintf("measured result contains %s whose footprint is %.3f m from the segment, radius %.3f m; closest_go: %s", id, d, sc.Radius, why)
					} else {
						out["6-farther-than-radius"] = fmt.Sprintf("measured result contains %s whose footprint is %.3f m from the segment, radius %.3f m", id, d, sc.Radius)
					}
				}
			}
		}
	}
	return out, info
}

// gjkDegenerate re-runs the dependency's distance routine (closest_go) on the two bodies the
// corridor query hands it for this voxel and reports whether its answer is internally
// inconsistent: the closest points it returns do not lie on the bodies, or their separation
// is not the distance it returns. Only such answers are attributed to the known numerical
// failure of the dependency; a consistent answer means the library's own filter let the
// voxel through.
func gjkDegenerate(sc *C14Scenario, id string) string {
	a, b, err := sc.points()
	if err != nil {
		return ""
	}
	vs, err := shape.GetPointOnExtendedSpatialId(id, enum.Vertex)
	if err != nil || len(vs) == 0 {
		return ""
	}
	geo := func(lon, lat float64) *mgl64.Vec3 {
		c := geodesy.GeocentricFromGeodetic(geodesy.Geodetic{lon, lat, lat})
		return (*mgl64.Vec3)(&c)
	}
	m := closest.Measure{}
	m.ConvexHulls[0] = []*mgl64.Vec3{geo(a.Lon(), a.Lat()), geo(b.Lon(), b.Lat())}
	for _, v := range vs {
		m.ConvexHulls[1] = append(m.ConvexHulls[1], geo(v.Lon(), v.Lat()))
	}
	m.MeasureNonnegativeDistance()
	if math.IsNaN(m.Distance) {
		return ""
	}
	if m.Distance >= sc.Radius {
		return "" // the dependency says "outside": then it was the library that kept the voxel
	}
	near := func(p mgl64.Vec3, hull []*mgl64.Vec3) float64 {
		lo, hi := *hull[0], *hull[0]
		for _, h := range hull {
			for i := 0; i < 3; i++ {
				lo[i], hi[i] = math.Min(lo[i], h[i]), math.Max(hi[i], h[i])
			}
		}
		worst := 0.0
		for i := 0; i < 3; i++ {
			if p[i] < lo[i] {
				worst = math.Max(worst, lo[i]-p[i])
			}
			if p[i] > hi[i] {
				worst = math.Max(worst, p[i]-hi[i])
			}
		}
		return worst
	}
	off0, off1 := near(m.Points[0], m.ConvexHulls[0]), near(m.Points[1], m.ConvexHulls[1])
	sep := m.Points[1].Sub(m.Points[0]).Len()
	scale := 1e-3 * (1 + sc.Radius)
	if off0 > scale || off1 > scale || math.Abs(sep-m.Distance) > scale {
		return fmt.Sprintf("returned distance %.6g with closest points %.6g m and %.6g m outside the bodies' bounding boxes and %.6g m apart", m.Distance, off0, off1, sep)
	}
	return ""
}

// polylineFootprintDist: distance between a footprint and the lon/lat-linear path between the
// end points (chords of at most about 500 m at altitude 0).
func polylineFootprintDist(sc *C14Scenario, k [4]v3) float64 {
	la0, la1 := truncLat(sc.Start[1]), truncLat(sc.End[1])
	// pieces of at most ~500 m: a chord that short stays within a centimetre of the path
	n := int(dist(ecef(sc.Start[0], la0, 0), ecef(sc.End[0], la1, 0))/500) + 1
	if n < 64 {
		n = 64
	}
	if n > 20000 {
		n = 20000
	}
	best := math.Inf(1)
	prev := ecef(sc.Start[0], la0, 0)
	for i := 1; i <= n; i++ {
		t := float64(i) / float64(n)
		cur := ecef(sc.Start[0]+t*(sc.End[0]-sc.Start[0]), la0+t*(la1-la0), 0)
		if d := segFootprintDist(prev, cur, k); d < best {
			best = d
		}
		prev = cur
	}
	return best
}

// the library truncates latitudes to 10 decimals when a Point is built
func truncLat(lat float64) float64 {
	if lat > 0 {
		return math.Floor(lat*1e10) / 1e10
	}
	return math.Ceil(lat*1e10) / 1e10
}

func (sc *C14Scenario) decoy(r *simrt.Rand) *C14Scenario {
	d := *sc
	switch r.Intn(5) {
	case 0:
		d.VZ = max64(0, min64(35, sc.VZ+[]int64{-2, -1, 1, 2}[r.Intn(4)]))
	case 1:
		d.HZ = max64(5, min64(35, sc.HZ+[]int64{-1, 1}[r.Intn(2)]))
	case 2:
		if sc.Radius == 0 {
			d.Radius = []float64{0.0004, 0.00049, 0.3 * voxelWidthM(max64(sc.HZ, 5), sc.Start[1])}[r.Intn(3)]
		} else {
			d.Radius = []float64{0, sc.Radius * 0.5, sc.Radius + 0.0003, math.Max(0, sc.Radius-0.0003)}[r.Intn(4)]
		}
	case 3:
		d.End[2] += 3 * float64(pow2(25)) / float64(pow2(sc.VZ))
	default:
		d.Start, d.End = sc.End, sc.Start
	}
	if !d.valid() || d.Radius > sc.Radius*1.5+1e-9 && sc.Radius > 0 {
		return nil
	}
	if d.HZ < 2 || d.HZ < 8 && d.Radius > 0.4*voxelWidthM(d.HZ, 60) {
		return nil // coarse grids: the layer fit does not terminate for large clearances
	}
	return &d
}

func execC14Decoy(d *C14Scenario, kind string) {
	if d == nil {
		return
	}
	// full step budget: unwinding an intervening call in the middle of the library would not
	// be a legal perturbation (it could leave a lock held)
	r := &C14Run{Kind: kind, order: simrt.NewAscOrder()}
	d.exec(r)
}

func evalC14(rp *C14Replay) map[string]string {
	simrt.RestoreGlobals()
	for _, r := range rp.Runs {
		execC14Decoy(r.Decoy, r.Kind)
		r.order = simrt.NewReplayOrder(r.Decisions)
		r.ids, r.set, r.err, r.panicked = nil, nil, "", ""
		rp.Scenario.exec(r)
	}
	cs, _ := judgeC14(&rp.Scenario, rp.Runs)
	return cs
}

func genC14Scenario(g *Gen, tier string) C14Scenario {
	maxVox, maxF := int64(30), 2.4
	if tier == "thorough" {
		maxVox, maxF = 60, 3.0
	}
	s := genCorridor(g, maxVox, maxF)
	sc := C14Scenario{Start: s.start, End: s.end, Radius: s.radius, HZ: s.hz, VZ: s.vz, Kind: s.radiusKind}
	if g.R.Chance(1, 12) { // clause 7
		switch g.R.Intn(3) {
		case 0:
			// same magnitude as a valid radius of this scenario, so that an implementation that
			// wrongly accepts it does ordinary work instead of exploding
			sc.Radius = -math.Max(math.Abs(sc.Radius), 0.1*voxelWidthM(max64(sc.HZ, 5), sc.Start[1]))
			sc.Kind = "negative"
		case 1:
			sc.HZ = []int64{-1, 36, 40, -7}[g.R.Intn(4)]
			sc.Kind = "invalid-hzoom"
		case 2:
			sc.VZ = []int64{-1, 36, 99}[g.R.Intn(3)]
			sc.Kind = "invalid-vzoom"
		}
	}
	return sc
}

func (w *Worker) runC14Case(idx int64) {
	g := &Gen{R: simrt.NewRand(simrt.Mix(w.Seed, uint64(idx), 14)), Deep: w.Tier == "thorough"}
	sc := genC14Scenario(g, w.Tier)
	trace("C14 case %d: %+v", idx, sc)
	weights := swarmWeights(g.R)
	w.St.Cases++
	var runs []*C14Run
	mk := func(kind string, k int) *C14Run {
		r := &C14Run{Kind: kind}
		if k == 0 {
			r.order = simrt.NewAscOrder()
		} else {
			r.order = simrt.NewGenOrder(simrt.Mix(w.Seed, uint64(idx), uint64(len(runs)), 1400), weights)
		}
		return r
	}
	runs = append(runs, mk("line", 0))
	runs = append(runs, mk("line", 1))
	for k := 0; k < w.K; k++ {
		runs = append(runs, mk("measured", k))
	}
	for k := 0; k < w.K; k++ {
		runs = append(runs, mk("skipped", k))
	}
	caseHash := simrt.DeepHash(sc)
	nonAsc := 0
	resetInputBufs()
	simrt.RestoreGlobals() // every case starts from the package state of a fresh process
	expensive := false
	for i, r := range runs {
		if i > 0 && sc.valid() && g.R.Chance(1, 3) && !expensive && runs[0].steps < 60_000 {
			if r.Decoy = sc.decoy(g.R); r.Decoy != nil {
				execC14Decoy(r.Decoy, r.Kind)
				w.St.Evaluations++
				w.St.FaultKinds["intervening_call_on_related_scenario"]++
			}
		}
		if expensive && i >= 2 && (i-2)%w.K >= 2 {
			r.skipped = true
			continue
		}
		sc.exec(r)
		if r.steps > 1_500_000 && !expensive { // step counts, not wall time: deterministic
			expensive = true // fewer schedules for the rest of this case
			w.St.Probes["expensive_cases_with_reduced_K"]++
		}
		r.Decisions = r.order.Decisions
		w.St.Evaluations++
		w.mergeOrderStats(r.order)
		nonAsc += r.order.NonAsc
		caseHash = caseHash*1099511628211 ^ hashDecisions(r.Decisions) ^ hashStrings(sortedSet(r.set)...) ^ hashStrings(r.err, r.panicked)
		if r.err != "" && sc.valid() {
			w.St.Probes["error_on_valid_scenario"]++
		}
		if r.aborted {
			w.St.Probes["runs_cut_short_by_step_budget"]++
		} else if r.panicked != "" {
			w.St.Probes["panic"]++
		}
		if r.steps > w.St.Extra["worst_steps_per_run"] {
			w.St.Extra["worst_steps_per_run"] = r.steps
		}
	}
	w.St.FaultKinds["repeat_call"] += int64(len(runs) - 3)
	clauses, info := judgeC14(&sc, runs)
	p := w.St.Probes
	if info.layerDisagree {
		p["layer_counts_disagree_along_line"]++
	}
	if info.measuredProper {
		p["measured_proper_subset_of_skipped"]++
	}
	p["clause6_footprints_evaluated"] += int64(info.clause6Evaluated)
	p["clause6_within_5pct_of_radius"] += int64(info.nearBand)
	if r := int64(info.worstRatio * 10000); r > w.St.Extra["clause6_worst_distance_over_radius_x10000"] {
		w.St.Extra["clause6_worst_distance_over_radius_x10000"] = r
	}
	if r := int64(info.worstExcess * 1e6); r > w.St.Extra["clause6_worst_excess_over_radius_micrometres"] {
		w.St.Extra["clause6_worst_excess_over_radius_micrometres"] = r
	}
	if r := int64(info.worstRatioGeneric * 10000); r > w.St.Extra["clause6_worst_ratio_x10000_nonconstant_latitude_radius_ge_0.5m"] {
		w.St.Extra["clause6_worst_ratio_x10000_nonconstant_latitude_radius_ge_0.5m"] = r
	}
	if r := int64(info.worstRatioEW * 10000); r > w.St.Extra["clause6_worst_ratio_x10000_constant_latitude_radius_ge_0.5m"] {
		w.St.Extra["clause6_worst_ratio_x10000_constant_latitude_radius_ge_0.5m"] = r
	}
	if !sc.valid() {
		p["invalid_scenarios"]++
	}
	if sc.Radius == 0 {
		p["radius_zero"]++
	}
	p["radius_kind."+sc.Kind]++
	if info.lineN >= 2 && sc.Radius > 0 && info.added > 0 {
		w.addNontrivial(caseHash)
		p["nontrivial_cases"]++
	}
	if len(w.St.Samples) < 3 && w.W == 0 && info.added > 0 {
		w.St.Samples = append(w.St.Samples, map[string]any{"case": idx, "scenario": sc, "line_voxels": info.lineN, "added_voxels_max": info.added,
			"layer_counts_max": []int64{info.H, info.V}, "runs": len(runs), "seam_decisions_of_run_3": head2(runs[3].Decisions, 6), "nonasc_seam_visits": nonAsc})
	}
	for _, cl := range sortedKeys(clauses) {
		if w.classSeen("C14", "corridor", cl) {
			w.report(&Violation{Property: "C14", Op: "corridor", Clause: cl})
			continue
		}
		rp := &C14Replay{Scenario: sc, Clause: cl}
		for _, r := range runs {
			if !r.skipped {
				rp.Runs = append(rp.Runs, &C14Run{Kind: r.Kind, Decisions: r.Decisions, Decoy: r.Decoy})
			}
		}
		rp, note := shrinkC14(rp)
		var sites []string
		for _, r := range rp.Runs {
			sites = append(sites, w.siteNames(r.Decisions)...)
		}
		detail := clauses[cl]
		if cs := evalC14(rp); cs[cl] != "" {
			detail = cs[cl]
		}
		w.report(&Violation{Property: "C14", Clause: cl, Op: "corridor", Seed: w.Seed, Case: idx, Detail: detail, Sites: sites, Replay: mustJSON(rp), Shrunk: note})
	}
	w.recordCase(idx, caseHash)
}

func sortedSet(m map[string]bool) []string {
	out := make([]string, 0, len(m))
	for k := range m {
		out = append(out, k)
	}
	sortStrings(out)
	return out
}

func shrinkC14(rp *C14Replay) (*C14Replay, string) {
	target := rp.Clause
	budget := 120
	deadline := time.Now().Add(40 * time.Second)
	fails := func(c *C14Replay) bool {
		if budget <= 0 || time.Now().After(deadline) {
			return false
		}
		budget--
		return evalC14(c)[target] != ""
	}
	if !fails(rp) {
		return rp, "not reproducible at shrink time"
	}
	cur := rp
	steps := 0
	// 1. drop runs
	for i := 0; i < len(cur.Runs); {
		c := &C14Replay{Scenario: cur.Scenario, Clause: target}
		c.Runs = append(append([]*C14Run{}, cur.Runs[:i]...), cur.Runs[i+1:]...)
		if len(c.Runs) > 0 && fails(c) {
			cur = c
			steps++
		} else {
			i++
		}
	}
	// 1b. drop intervening calls
	for ri := range cur.Runs {
		if cur.Runs[ri].Decoy == nil {
			continue
		}
		c := &C14Replay{Scenario: cur.Scenario, Clause: target}
		for j, r := range cur.Runs {
			n := &C14Run{Kind: r.Kind, Decisions: r.Decisions, Decoy: r.Decoy}
			if j == ri {
				n.Decoy = nil
			}
			c.Runs = append(c.Runs, n)
		}
		if fails(c) {
			cur = c
			steps++
		}
	}
	// 2. drop seam decisions per run
	for ri := range cur.Runs {
		ds := cur.Runs[ri].Decisions
		for chunk := (len(ds) + 1) / 2; chunk >= 1; chunk /= 2 {
			for i := 0; i+chunk <= len(ds); {
				nd := append(append([]simrt.Decision{}, ds[:i]...), ds[i+chunk:]...)
				c := &C14Replay{Scenario: cur.Scenario, Clause: target}
				for j, r := range cur.Runs {
					if j == ri {
						c.Runs = append(c.Runs, &C14Run{Kind: r.Kind, Decisions: nd, Decoy: r.Decoy})
					} else {
						c.Runs = append(c.Runs, &C14Run{Kind: r.Kind, Decisions: r.Decisions, Decoy: r.Decoy})
					}
				}
				if fails(c) {
					cur = c
					ds = nd
					steps++
				} else {
					i += chunk
				}
			}
			if chunk == 1 {
				break
			}
		}
	}
	n := 0
	for _, r := range cur.Runs {
		n += len(r.Decisions)
	}
	return cur, fmt.Sprintf("%d shrink steps, %d runs and %d seam decisions left", steps, len(cur.Runs), n)
}

func replayC14(raw json.RawMessage) (string, string, error) {
	rp := &C14Replay{}
	if err := json.Unmarshal(raw, rp); err != nil {
		return "", "", err
	}
	cs := evalC14(rp)
	if d, ok := cs[rp.Clause]; ok {
		return rp.Clause, d, nil
	}
	if len(cs) > 0 {
		return "", fmt.Sprint("other clauses violated: ", sortedKeys(cs)), nil
	}
	return "", "", nil
}
