package main

import (
	"math"
)

// segScenario is a line segment (and, for the corridor, a clearance radius) with zooms.
type segScenario struct {
	start, end [3]float64
	hz, vz     int64
	radius     float64
	radiusKind string // "zero" | "threshold" | "free"
	f          float64
	aligned    bool // midpoint on a tile boundary in longitude and altitude
	world      bool // spans (almost) the whole grid
}

func clamp(x, lo, hi float64) float64 { return math.Max(lo, math.Min(hi, x)) }

func (g *Gen) hzoomForSegment() int64 {
	switch x := g.R.Intn(20); {
	case x < 14:
		return g.R.Range(8, 24)
	case x < 16:
		return g.R.Range(2, 7)
	default:
		return g.R.Range(25, 35)
	}
}

// genSegment draws a segment spanning at most about maxVox voxels.
func genSegment(g *Gen, maxVox int64, sameZoom ...bool) segScenario {
	var sc segScenario
	sc.hz = g.hzoomForSegment()
	sc.vz = g.R.Range(0, 35)
	if len(sameZoom) > 0 && sameZoom[0] {
		sc.vz = sc.hz
	}
	lon, lat := g.lonLat()
	if sc.hz < 8 {
		lat = round10(lat * 0.7) // keep coarse grids away from the converging polar rows
	}
	w := 360.0 / float64(pow2(sc.hz)) // degrees of longitude per voxel
	latStep := w * math.Cos(lat*math.Pi/180)
	lim := maxVox
	if sc.hz < 8 {
		lim = min64(lim, max64(1, pow2(sc.hz)/4))
	}
	var nx, ny float64
	span := func() float64 { return float64(g.R.Range(-lim, lim)) + g.R.Float64() - 0.5 }
	switch g.R.Intn(6) {
	case 0:
		nx = span()
	case 1:
		ny = span()
	case 2:
		nx = span()
		ny = nx * float64(1-2*g.R.Intn(2))
	case 3: // vertical only
	default:
		nx, ny = span()/2, span()/2
	}
	vh := float64(pow2(25)) / float64(pow2(sc.vz)) // metres per vertical voxel
	if g.R.Chance(1, 30) {
		// world-spanning segment on a coarse grid: the corridor wraps around the tile grid and
		// can meet itself (almost 360 degrees of longitude, or nearly pole to pole)
		sc.hz = g.R.Range(2, 6)
		a := float64(g.R.Range(-2, 3)) * vh
		if g.R.Chance(2, 3) {
			l1, l2 := -179.9+15*g.R.Float64(), 179.9-15*g.R.Float64()
			la := -60 + 120*g.R.Float64()
			sc.start = [3]float64{round10(l1), round10(la), a}
			sc.end = [3]float64{round10(l2), round10(clamp(la+20*(g.R.Float64()-0.5), -80, 80)), a}
		} else {
			lo := -170 + 340*g.R.Float64()
			sc.start = [3]float64{round10(lo), round10(-84 + 6*g.R.Float64()), a}
			sc.end = [3]float64{round10(clamp(lo+10*(g.R.Float64()-0.5), -179.9, 179.9)), round10(84 - 6*g.R.Float64()), a}
		}
		if g.R.Chance(1, 2) {
			sc.start, sc.end = sc.end, sc.start
		}
		sc.world = true
		return sc
	}
	if sc.hz >= 4 && g.R.Chance(1, 8) {
		// boundary-aligned segment: its midpoint sits on a tile boundary in longitude and in
		// altitude (and, half of the time, on the equator), so the midpoint recursion of the line
		// query rounds differently depending on direction and on the last bit of the end points
		m := g.R.Range(3, min64(sc.hz, 9))
		lonC := -180 + 360*float64(g.R.Range(1, pow2(m)-1))/float64(pow2(m))
		altC := float64(g.R.Range(-3, 6)) * vh
		latC := lat
		dLon := w * (0.2 + 2.5*g.R.Float64())
		dLat := latStep * 2.5 * g.R.Float64()
		dAlt := vh * 2.5 * g.R.Float64()
		if g.R.Chance(1, 2) {
			latC = 0
		}
		if g.R.Chance(1, 2) { // "decimal" offsets, as a user would type them
			dLon = math.Round(dLon*1e7) / 1e7
			dLat = math.Round(dLat*1e7) / 1e7
			dAlt = math.Round(dAlt*10) / 10
		}
		sg := float64(1 - 2*g.R.Intn(2))
		sc.start = [3]float64{clamp(lonC+sg*dLon, -179.99, 179.99), clamp(latC-dLat, -84, 84), altC + dAlt}
		sc.end = [3]float64{clamp(lonC-sg*dLon, -179.99, 179.99), clamp(latC+dLat, -84, 84), altC - dAlt}
		sc.aligned = true
		return sc
	}
	alt := (float64(g.R.Range(-3, 5)) + g.R.Float64()) * vh
	dv := float64(g.R.Range(-3, 3))
	if g.R.Chance(1, 2) {
		dv = 0
	}
	elon := clamp(lon+nx*w, -179.99, 179.99)
	elat := clamp(lat+ny*latStep, -84, 84)
	sc.start = [3]float64{round10(lon), round10(lat), alt}
	sc.end = [3]float64{round10(elon), round10(elat), alt + dv*vh*(0.3+g.R.Float64())}
	return sc
}

// genCorridor adds a radius of at most maxF voxel widths; a good share of radii sits
// exactly at a multiple of the voxel width somewhere between the end points' latitudes,
// i.e. between the layer thresholds of two voxels of the line: the configuration in which
// the choice of the voxel that sizes the search box matters.
func genCorridor(g *Gen, maxVox int64, maxF float64) segScenario {
	sc := genSegment(g, maxVox)
	if sc.hz < 5 {
		// a voxel is thousands of km wide here and the layer fit does not terminate once the
		// clearance exceeds the distance to the far side of the grid: tiny radii only
		maxF = math.Min(maxF, 0.01)
	} else if sc.hz < 8 {
		maxF = math.Min(maxF, 0.5)
	}
	la, lb := sc.start[1], sc.end[1]
	x := g.R.Intn(10)
	if sc.world {
		// on a grid this coarse only tiny radii are meaningful (and terminate)
		sc.radius, sc.radiusKind = []float64{0, 0.0004, 1, 250}[g.R.Intn(4)], "world"
		return sc
	}
	if g.R.Chance(1, 20) {
		// sub-millimetre radius: positive, yet below any rounding a cache key might apply
		sc.radius, sc.radiusKind = []float64{0.0001, 0.0004, 0.00049}[g.R.Intn(3)], "tiny"
		return sc
	}
	if sc.aligned && g.R.Chance(1, 2) {
		x = 0 // the radius-0 identity is where a one-voxel difference of the line shows
	}
	switch {
	case x < 2:
		sc.radius, sc.radiusKind = 0, "zero"
	case x < 6 && maxF >= 1:
		lat := la + (lb-la)*g.R.Float64()
		k := float64(g.R.Range(1, int64(maxF)))
		sc.radius = k * voxelWidthM(sc.hz, lat)
		sc.radiusKind = "threshold"
		sc.f = k
	default:
		sc.f = maxF * g.R.Float64()
		sc.radius = sc.f * voxelWidthM(sc.hz, (la+lb)/2)
		sc.radiusKind = "free"
	}
	return sc
}
