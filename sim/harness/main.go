// Command harness is the simulation driver for the properties C14, C16 and C19 of
// spatial_id_go. It is built against an instrumented scratch copy of /repo by /verif/check.
//
//	harness run    -prop C16 -tier quick ...   driver: spawns workers, confirms and reports
//	harness worker ...                         one worker process (internal)
//	harness replay -file F                     re-executes a replay file
package main

import (
	"bufio"
	"bytes"
	"encoding/binary"
	"encoding/json"
	"flag"
	"fmt"
	"os"
	"os/exec"
	"path/filepath"
	"runtime"
	"sort"
	"strings"
	"sync"
	"syscall"
	"time"

	"verif.local/simrt"
)

type tierParams struct {
	Cases  int64 // per run (all workers together); 0 = until the budget is used
	Budget time.Duration
	K      int
}

func params(prop, tier string) tierParams {
	switch prop + "/" + tier {
	case "C16/quick":
		return tierParams{Cases: 64000, Budget: 150 * time.Second, K: 4}
	case "C16/thorough":
		return tierParams{Budget: 15 * time.Minute, K: 12}
	case "C14/quick":
		return tierParams{Cases: 6400, Budget: 150 * time.Second, K: 3}
	case "C14/thorough":
		return tierParams{Budget: 10 * time.Minute, K: 8}
	case "C19/quick":
		return tierParams{Cases: 25600, Budget: 150 * time.Second, K: 3}
	case "C19/thorough":
		return tierParams{Budget: 15 * time.Minute, K: 6}
	}
	return tierParams{Cases: 100, Budget: time.Minute, K: 2}
}

func main() {
	if len(os.Args) < 2 {
		fmt.Fprintln(os.Stderr, "usage: harness run|worker|replay ...")
		os.Exit(2)
	}
	switch os.Args[1] {
	case "run":
		os.Exit(driver(os.Args[2:]))
	case "worker":
		os.Exit(workerMain(os.Args[2:]))
	case "replay":
		os.Exit(replayMain(os.Args[2:]))
	case "laneb":
		os.Exit(laneBMain(os.Args[2:]))
	case "rlane":
		os.Exit(rlaneMain(os.Args[2:]))
	}
	fmt.Fprintln(os.Stderr, "unknown subcommand", os.Args[1])
	os.Exit(2)
}

type commonFlags struct {
	prop, tier, inv, evidence, replayDir, known, caseLog, scratch, laneB, laneR string
	seed                                                                        uint64
	workers                                                                     int
	budget                                                                      time.Duration
	cases                                                                       int64
	w, n                                                                        int
}

func parseFlags(args []string) *commonFlags {
	f := &commonFlags{}
	fs := flag.NewFlagSet("harness", flag.ExitOnError)
	fs.StringVar(&f.prop, "prop", "C16", "property")
	fs.StringVar(&f.tier, "tier", "quick", "quick|thorough")
	fs.Uint64Var(&f.seed, "seed", 1, "VERIF_SEED")
	fs.IntVar(&f.workers, "workers", runtime.NumCPU(), "worker processes")
	fs.StringVar(&f.inv, "inv", "", "instrumenter inventory (json)")
	fs.StringVar(&f.evidence, "evidence", "", "evidence file to write")
	fs.StringVar(&f.replayDir, "replaydir", "", "directory for replay files")
	fs.StringVar(&f.known, "known", "", "known findings file")
	fs.StringVar(&f.caseLog, "caselog", "", "directory for per-case hash logs (determinism self-test)")
	fs.StringVar(&f.scratch, "scratch", os.TempDir(), "scratch directory for worker output")
	fs.StringVar(&f.laneB, "laneb", "", "path of the lane-B binary (uninstrumented, -race); C19 only")
	fs.StringVar(&f.laneR, "laner", "", "path of the lane-R binary (instrumented, -race); C19 only")
	fs.DurationVar(&f.budget, "budget", 0, "override wall-clock budget")
	fs.Int64Var(&f.cases, "cases", -1, "override case count")
	fs.IntVar(&f.w, "w", 0, "worker index")
	fs.IntVar(&f.n, "n", 1, "worker count")
	fs.Parse(args)
	return f
}

// ---------------------------------------------------------------- worker

func workerMain(args []string) int {
	f := parseFlags(args)
	tp := params(f.prop, f.tier)
	if f.budget > 0 {
		tp.Budget = f.budget
	}
	if f.cases >= 0 {
		tp.Cases = f.cases
	}
	w := &Worker{Prop: f.prop, Tier: f.tier, Seed: f.seed, W: f.w, N: f.n, St: newStats(f.prop), hashes: map[uint64]struct{}{},
		seenClass: map[string]*Violation{}, Deadline: time.Now().Add(tp.Budget), MaxCases: tp.Cases, inv: loadInventory(f.inv), K: tp.K}
	loadVarIDs(w.inv)
	prepareRuntime(w.inv)
	if f.prop == "C19" && simrt.RealGo {
		// lane A cannot own a library that blocks on channels / select / Cond / timers: no cases
		if f.w == 0 {
			w.St.Errors = append(w.St.Errors, "lane A skipped: the library uses blocking constructs the simulator does not own (see unsimulated_blocking_constructs); C19 verdict from lane B (runtime monitoring) only")
		}
		tp.Cases, tp.Budget = 0, 0
		w.MaxCases = 0
		w.Deadline = time.Now()
	}
	if simrt.RestoreDisabled != "" && f.w == 0 {
		w.St.Errors = append(w.St.Errors, "package state is not reset between cases: "+simrt.RestoreDisabled)
	}
	if vl, err := os.Create(filepath.Join(f.scratch, fmt.Sprintf("viol.%s.%d.jsonl", f.prop, f.w))); err == nil {
		w.violLog = vl
		defer vl.Close()
	}
	// address-space limit: a corrupted size computed by the code under test must fail fast
	// instead of taking the machine down
	lim := syscall.Rlimit{Cur: 24 << 30, Max: 24 << 30}
	syscall.Setrlimit(syscall.RLIMIT_AS, &lim)
	if f.caseLog != "" {
		fl, err := os.Create(filepath.Join(f.caseLog, fmt.Sprintf("w%02d.log", f.w)))
		if err == nil {
			w.caseLog = fl
			defer fl.Close()
		}
	}
	// per-case watchdog
	var mu sync.Mutex
	go func() {
		for {
			time.Sleep(time.Second)
			mu.Lock()
			st, c := w.caseStart, w.curCase
			mu.Unlock()
			if !st.IsZero() && time.Since(st) > 300*time.Second {
				fmt.Fprintf(os.Stderr, "WATCHDOG: worker %d case %d of %s runs for more than 300 s (seed %d)\n", f.w, c, f.prop, f.seed)
				os.Exit(3)
			}
		}
	}()
	t0 := time.Now()
	for idx := int64(f.w); ; idx += int64(f.n) {
		if tp.Cases > 0 && idx >= tp.Cases {
			break
		}
		if time.Now().After(w.Deadline) {
			if tp.Cases > 0 && !(f.prop == "C19" && simrt.RealGo) {
				w.St.Errors = append(w.St.Errors, fmt.Sprintf("budget reached at case %d of %d", idx, tp.Cases))
			}
			break
		}
		mu.Lock()
		w.curCase, w.caseStart = idx, time.Now()
		mu.Unlock()
		switch f.prop {
		case "C16":
			w.runC16Case(idx)
		case "C14":
			w.runC14Case(idx)
		case "C19":
			w.runC19Case(idx)
		default:
			fmt.Fprintln(os.Stderr, "unknown property", f.prop)
			return 2
		}
		if w.stop {
			break
		}
	}
	mu.Lock()
	w.caseStart = time.Time{}
	mu.Unlock()
	w.St.SimSeconds = time.Since(t0).Seconds()
	w.St.Nontrivial = int64(len(w.hashes))
	// distinct hashes go to a side file so that the driver can count across workers exactly
	hb := make([]byte, 0, 8*len(w.hashes))
	for h := range w.hashes {
		hb = binary.LittleEndian.AppendUint64(hb, h)
	}
	os.WriteFile(filepath.Join(f.scratch, fmt.Sprintf("hashes.%s.%d", f.prop, f.w)), hb, 0o644)
	// statistics go to a file, not to stdout: the library under test may print
	sf, err := os.Create(filepath.Join(f.scratch, fmt.Sprintf("stats.%s.%d.json", f.prop, f.w)))
	if err != nil {
		fmt.Fprintln(os.Stderr, "cannot write statistics:", err)
		return 2
	}
	out := bufio.NewWriter(sf)
	json.NewEncoder(out).Encode(w.St)
	out.Flush()
	sf.Close()
	return 0
}

// ---------------------------------------------------------------- driver

type KnownFinding struct {
	Status   string `json:"status"` // open | fixed
	Property string `json:"property"`
	Key      struct {
		Operation string `json:"operation"`
		Clause    string `json:"clause"`
		Site      string `json:"site,omitempty"`
	} `json:"key"`
	What   string `json:"what"`
	Commit string `json:"commit,omitempty"`
}

func loadKnown(path string) []KnownFinding {
	var k []KnownFinding
	if b, err := os.ReadFile(path); err == nil {
		json.Unmarshal(b, &k)
	}
	return k
}

func matchKnown(ks []KnownFinding, v *Violation) *KnownFinding {
	for i := range ks {
		k := &ks[i]
		if k.Status != "open" || k.Property != v.Property || k.Key.Operation != v.Op || k.Key.Clause != v.Clause {
			continue
		}
		if k.Key.Site != "" {
			ok := false
			for _, s := range v.Sites {
				if strings.HasPrefix(s, k.Key.Site) {
					ok = true
				}
			}
			if !ok {
				continue
			}
		}
		return k
	}
	return nil
}

func driver(args []string) int {
	f := parseFlags(args)
	t0 := time.Now()
	fmt.Printf("VERIF_SEED=%d property=%s tier=%s workers=%d\n", f.seed, f.prop, f.tier, f.workers)
	scratch, err := os.MkdirTemp(f.scratch, "hw")
	if err != nil {
		fmt.Println("ERROR:", err)
		return 2
	}
	defer os.RemoveAll(scratch)
	type wres struct {
		st   *Stats
		err  error
		errS string
	}
	res := make([]wres, f.workers)
	var wg sync.WaitGroup
	for i := 0; i < f.workers; i++ {
		wg.Add(1)
		go func(i int) {
			defer wg.Done()
			a := []string{"worker", "-prop", f.prop, "-tier", f.tier, "-seed", fmt.Sprint(f.seed), "-w", fmt.Sprint(i), "-n", fmt.Sprint(f.workers),
				"-inv", f.inv, "-scratch", scratch, "-cases", fmt.Sprint(f.cases), "-budget", f.budget.String()}
			if f.caseLog != "" {
				a = append(a, "-caselog", f.caseLog)
			}
			cmd := exec.Command(os.Args[0], a...)
			var so, se bytes.Buffer
			cmd.Stdout, cmd.Stderr = &so, &se
			cmd.Env = append(os.Environ(), "GOMAXPROCS="+gomaxprocsFor(f.workers))
			err := cmd.Run()
			st := &Stats{}
			if err == nil {
				var b []byte
				if b, err = os.ReadFile(filepath.Join(scratch, fmt.Sprintf("stats.%s.%d.json", f.prop, i))); err == nil {
					err = json.Unmarshal(b, st)
				}
			}
			res[i] = wres{st, err, se.String()}
		}(i)
	}
	wg.Wait()
	tot := newStats(f.prop)
	distinct := map[uint64]struct{}{}
	failedWorkers := 0
	for i, r := range res {
		if r.err != nil {
			// a worker died (watchdog, out of memory, fatal error in the code under test): keep
			// what it had streamed out, remember that the run is incomplete
			failedWorkers++
			why := ""
			for _, line := range strings.Split(r.errS, "\n") {
				if strings.HasPrefix(line, "fatal error:") || strings.HasPrefix(line, "panic:") || strings.HasPrefix(line, "WATCHDOG") {
					why = line + "\n"
					break
				}
			}
			fmt.Printf("note: worker %d failed: %v\n%s%s\n", i, r.err, why, tail(r.errS, 6))
			if b, err := os.ReadFile(filepath.Join(scratch, fmt.Sprintf("viol.%s.%d.jsonl", f.prop, i))); err == nil {
				for _, line := range bytes.Split(b, []byte("\n")) {
					v := &Violation{}
					if len(line) > 0 && json.Unmarshal(line, v) == nil && v.Replay != nil {
						tot.Violations = append(tot.Violations, v)
					}
				}
			}
			continue
		}
		mergeStats(tot, r.st)
		if hb, err := os.ReadFile(filepath.Join(scratch, fmt.Sprintf("hashes.%s.%d", f.prop, i))); err == nil {
			for j := 0; j+8 <= len(hb); j += 8 {
				distinct[binary.LittleEndian.Uint64(hb[j:])] = struct{}{}
			}
		}
	}
	tot.Extra["failed_workers"] = int64(failedWorkers)
	tot.Nontrivial = int64(len(distinct))

	if f.prop == "C19" && tot.Extra["unowned_goroutines_seen"] > 0 {
		fmt.Printf("note: goroutines the simulator did not start were seen in %d lane-A runs (a dependency or an unrewritten construct starts them): lane A's findings are not trusted for this tree and are dropped; verdict from lane B\n", tot.Extra["unowned_goroutines_seen"])
		tot.Violations = nil
	}
	laneB := map[string]any(nil)
	laneBUnreproduced := false
	exit := 0
	laneR := map[string]any(nil)
	if f.prop == "C19" && f.laneR != "" && !invRealGo(f.inv) && tot.Extra["unowned_goroutines_seen"] == 0 {
		var rViol []*Violation
		var code int
		laneR, rViol, code = runLaneR(f, scratch)
		if code == 2 {
			return 2
		}
		if code == 3 {
			laneBUnreproduced = true
		}
		tot.Violations = append(tot.Violations, rViol...)
	}
	if f.prop == "C19" && f.laneB != "" {
		var lbViol []*Violation
		var code int
		laneB, lbViol, code = runLaneB(f, scratch)
		if code == 2 {
			return 2
		}
		if code == 3 {
			laneBUnreproduced = true
		}
		tot.Violations = append(tot.Violations, lbViol...)
	}

	// confirm, classify and report violations
	known := loadKnown(f.known)
	byClass := map[string]*Violation{}
	for _, v := range tot.Violations {
		k := v.ClassKey()
		if o, ok := byClass[k]; !ok || (v.Replay != nil && (o.Replay == nil || v.Case < o.Case)) {
			if ok {
				v.Count += o.Count
			}
			byClass[k] = v
		} else {
			o.Count += v.Count
		}
	}
	var reported, knownMatched []string
	notReproduced := 0
	for _, k := range sortedKeys(byClass) {
		v := byClass[k]
		if v.Replay == nil {
			continue
		}
		os.MkdirAll(filepath.Join(f.replayDir, f.prop), 0o755)
		name := fmt.Sprintf("%s-%s-%s-seed%d-case%d.json", v.Property, v.Op, v.Clause, v.Seed, v.Case)
		path := filepath.Join(f.replayDir, f.prop, name)
		doc := map[string]any{"property": v.Property, "clause": v.Clause, "op": v.Op, "seed": v.Seed, "case": v.Case, "detail": v.Detail,
			"sites": v.Sites, "shrunk": v.Shrunk, "cases_in_class": v.Count, "replay": v.Replay, "go_version": runtime.Version()}
		b, _ := json.MarshalIndent(doc, "", " ")
		if err := os.WriteFile(path, b, 0o644); err != nil {
			fmt.Println("ERROR: cannot write replay file:", err)
			return 2
		}
		// fresh-process confirmation
		var confirmed bool
		if strings.HasPrefix(v.Clause, "laneB-") || strings.HasPrefix(v.Clause, "laneR-") {
			confirmed = true // lane B confirms by re-running in a fresh process itself
		} else {
			cmd := exec.Command(os.Args[0], "replay", "-file", path, "-inv", f.inv, "-quiet")
			cmd.Env = append(os.Environ(), "GOMAXPROCS="+gomaxprocsFor(f.workers)) // same as the workers: code that reads it must see the same value
			out, err := cmd.CombinedOutput()
			if ee, ok := err.(*exec.ExitError); ok && ee.ExitCode() == 1 {
				confirmed = true
			} else if err != nil {
				fmt.Printf("ERROR: replay of %s failed: %v\n%s\n", path, err, tail(string(out), 20))
				return 2
			}
		}
		if !confirmed {
			// state the replay file does not carry (a sync.Pool, package state that cannot be
			// reset) can make a violation depend on what the worker ran before: it is dropped,
			// loudly, and the run ends without a verdict unless something else was confirmed
			fmt.Printf("note: violation %s did not reproduce from its replay file in a fresh process and is dropped: %s\n", k, path)
			notReproduced++
			continue
		}
		if kf := matchKnown(known, v); kf != nil {
			fmt.Printf("KNOWN-FINDING: property=%s %s [%s/%s, %d case(s), replay=%s]\n", v.Property, kf.What, v.Op, v.Clause, v.Count, path)
			knownMatched = append(knownMatched, k)
			continue
		}
		fmt.Printf("VIOLATION property=%s replay=%s\n", v.Property, path)
		fmt.Printf("  clause=%s op=%s cases_in_class=%d sites=%v\n  %s\n", v.Clause, v.Op, v.Count, v.Sites, v.Detail)
		reported = append(reported, k)
		exit = 1
	}
	for _, e := range tot.Errors {
		fmt.Println("note:", e)
	}
	// vacuity: cases in which the library panicked are compared on panic-ness only
	if np := tot.Probes["reference_panicked"] + tot.Probes["panic"]; tot.Cases > 0 && np*50 > tot.Cases {
		fmt.Printf("note: the library panicked in %d of %d generated cases (valid inputs by construction); those cases are compared on panic-ness only, so this run says little about them\n", np, tot.Cases)
	}
	// vacuity: runs that did not finish (step budget, deadlock or stall among simulated
	// primitives) give no verdict; many of them mean the run says little
	if nc := tot.Probes["runs_cut_short_by_step_budget"]; tot.Evaluations > 0 && nc*50 > tot.Evaluations {
		fmt.Printf("note: %d of %d library executions did not finish (step budget exceeded, or deadlock / stall among simulated primitives) and gave no verdict\n", nc, tot.Evaluations)
	}
	if inv := loadInventory(f.inv); inv != nil && len(tot.APICovered) > 0 {
		covered := map[string]bool{}
		for _, a := range tot.APICovered {
			covered[a] = true
		}
		var missing []string
		for _, e := range inv.Exported {
			short := strings.TrimPrefix(e, "github.com/trajectoryjp/spatial_id_go/v4/")
			if !strings.HasPrefix(short, "examples/") && !covered[short] {
				missing = append(missing, short)
			}
		}
		if len(missing) > 0 {
			fmt.Printf("note: %d exported function(s)/method(s) of this tree are not exercised by the catalogue (new API?): %s\n", len(missing), strings.Join(head(missing, 8), ", "))
		}
	}
	if simrt.RestoreDisabled != "" {
		fmt.Println("note: package state is not reset between cases:", simrt.RestoreDisabled)
	}
	if tot.RecheckBad > 0 {
		fmt.Printf("note: %d of %d re-executed cases did not reproduce their event hash: the tree contains nondeterminism the simulator does not own (see unowned_nondeterminism; sync.Pool reuse, state that cannot be reset)\n", tot.RecheckBad, tot.Rechecks)
	}
	if notReproduced > 0 && exit == 0 {
		fmt.Printf("ERROR: %d violation(s) did not reproduce from their replay files and nothing else was confirmed: no verdict\n", notReproduced)
		exit = 2
	}
	if laneBUnreproduced && exit == 0 {
		fmt.Println("ERROR: a lane-B race report did not reproduce and nothing else was confirmed: no verdict")
		exit = 2
	}
	if failedWorkers > 0 && exit == 0 {
		fmt.Printf("ERROR: %d worker(s) died and no violation was confirmed: no verdict\n", failedWorkers)
		exit = 2
	}
	if tot.Extra["stalled_workers"] > 0 && exit == 0 {
		fmt.Println("ERROR: a run stalled and no violation was confirmed: no verdict")
		exit = 2
	}
	wall := time.Since(t0).Seconds()
	if f.evidence != "" {
		if err := writeEvidence(f, tot, wall, reported, knownMatched, laneB, laneR); err != nil {
			fmt.Println("ERROR: evidence:", err)
			return 2
		}
	}
	fmt.Printf("%s %s: cases=%d executions=%d distinct_nontrivial=%d violations=%d known=%d wall=%.1fs\n", f.prop, f.tier, tot.Cases, tot.Evaluations, tot.Nontrivial, len(reported), len(knownMatched), wall)
	return exit
}

func invRealGo(path string) bool {
	inv := loadInventory(path)
	return inv != nil && len(inv.Unsim) > 0
}

func gomaxprocsFor(workers int) string {
	if v := os.Getenv("VERIF_GOMAXPROCS"); v != "" {
		return v
	}
	return "2"
}

func tail(s string, n int) string {
	l := strings.Split(strings.TrimRight(s, "\n"), "\n")
	if len(l) > n {
		l = l[len(l)-n:]
	}
	return strings.Join(l, "\n")
}

func mergeStats(t, s *Stats) {
	t.Cases += s.Cases
	t.Evaluations += s.Evaluations
	t.LogicalTime += s.LogicalTime
	t.Rechecks += s.Rechecks
	t.RecheckBad += s.RecheckBad
	t.SimSeconds += s.SimSeconds
	t.Unorderable += s.Unorderable
	t.Digest += s.Digest
	for k, v := range s.FaultKinds {
		t.FaultKinds[k] += v
	}
	for k, v := range s.Probes {
		t.Probes[k] += v
	}
	for k, v := range s.OpCount {
		t.OpCount[k] += v
	}
	for k, v := range s.Extra {
		if strings.Contains(k, "worst") { // maxima, not sums
			if v > t.Extra[k] {
				t.Extra[k] = v
			}
			continue
		}
		t.Extra[k] += v
	}
	if len(t.Samples) < 4 {
		t.Samples = append(t.Samples, s.Samples...)
	}
	t.Violations = append(t.Violations, s.Violations...)
	t.Errors = append(t.Errors, s.Errors...)
	seen := map[string]bool{}
	for _, a := range t.APICovered {
		seen[a] = true
	}
	for _, a := range s.APICovered {
		if !seen[a] {
			t.APICovered = append(t.APICovered, a)
			seen[a] = true
		}
	}
	sort.Strings(t.APICovered)
}

// ---------------------------------------------------------------- replay

func replayMain(args []string) int {
	fs := flag.NewFlagSet("replay", flag.ExitOnError)
	file := fs.String("file", "", "replay file")
	inv := fs.String("inv", "", "inventory")
	quiet := fs.Bool("quiet", false, "no VIOLATION line (used by the driver's own confirmation)")
	fs.Parse(args)
	loadVarIDs(loadInventory(*inv))
	prepareRuntime(loadInventory(*inv))
	b, err := os.ReadFile(*file)
	if err != nil {
		fmt.Println("ERROR:", err)
		return 2
	}
	var doc struct {
		Property string          `json:"property"`
		Clause   string          `json:"clause"`
		Replay   json.RawMessage `json:"replay"`
	}
	if err := json.Unmarshal(b, &doc); err != nil {
		fmt.Println("ERROR:", err)
		return 2
	}
	var clause, detail string
	switch doc.Property {
	case "C16":
		clause, detail, err = replayC16(doc.Replay)
	case "C14":
		clause, detail, err = replayC14(doc.Replay)
	case "C19":
		clause, detail, err = replayC19(doc.Replay)
	default:
		err = fmt.Errorf("unknown property %q", doc.Property)
	}
	if err != nil {
		fmt.Println("ERROR:", err)
		return 2
	}
	if clause != "" {
		if !*quiet {
			fmt.Printf("VIOLATION property=%s replay=%s\n", doc.Property, *file)
		}
		fmt.Printf("  reproduced: clause=%s %s\n", clause, detail)
		return 1
	}
	fmt.Printf("replay of %s: property holds on this tree (%s)\n", *file, detail)
	return 0
}

// prepareRuntime tells the runtime which packages are the library's own, whether the library
// uses blocking constructs the simulator does not own, and takes the package-state snapshot.
func prepareRuntime(inv *Inventory) {
	if inv != nil {
		for _, p := range inv.Packages {
			simrt.OwnedPackages[p] = true
		}
		simrt.RealGo = len(inv.Unsim) > 0
	}
	simrt.SnapshotGlobals()
}
