package main

import "math"

// Independent geometry for C14 clause 6: WGS84 ECEF by the closed form, voxel footprint
// corners from the Web-Mercator inverse, exact segment-to-triangle distance. Nothing here
// calls the library.

type v3 struct{ x, y, z float64 }

func (a v3) sub(b v3) v3      { return v3{a.x - b.x, a.y - b.y, a.z - b.z} }
func (a v3) add(b v3) v3      { return v3{a.x + b.x, a.y + b.y, a.z + b.z} }
func (a v3) mul(f float64) v3 { return v3{a.x * f, a.y * f, a.z * f} }
func (a v3) dot(b v3) float64 { return a.x*b.x + a.y*b.y + a.z*b.z }
func (a v3) cross(b v3) v3    { return v3{a.y*b.z - a.z*b.y, a.z*b.x - a.x*b.z, a.x*b.y - a.y*b.x} }
func (a v3) norm() float64    { return math.Sqrt(a.dot(a)) }
func dist(a, b v3) float64    { return a.sub(b).norm() }

const (
	wgsA  = 6378137.0
	wgsF  = 1 / 298.257223563
	wgsE2 = wgsF * (2 - wgsF)
)

func ecef(lonDeg, latDeg, h float64) v3 {
	lon, lat := lonDeg*math.Pi/180, latDeg*math.Pi/180
	s, c := math.Sin(lat), math.Cos(lat)
	n := wgsA / math.Sqrt(1-wgsE2*s*s)
	return v3{(n + h) * c * math.Cos(lon), (n + h) * c * math.Sin(lon), (n*(1-wgsE2) + h) * s}
}

// footprintCorners returns the four ground corners of tile (x,y) at zoom hz.
func footprintCorners(hz, x, y int64) [4]v3 {
	n := math.Pow(2, float64(hz))
	lon := func(xx float64) float64 { return xx/n*360 - 180 }
	lat := func(yy float64) float64 { return math.Atan(math.Sinh(math.Pi*(1-2*yy/n))) * 180 / math.Pi }
	fx, fy := float64(x), float64(y)
	return [4]v3{ecef(lon(fx), lat(fy), 0), ecef(lon(fx+1), lat(fy), 0), ecef(lon(fx+1), lat(fy+1), 0), ecef(lon(fx), lat(fy+1), 0)}
}

func clamp01(t float64) float64 { return math.Max(0, math.Min(1, t)) }

// closest point on triangle abc to p (Ericson, Real-Time Collision Detection 5.1.5)
func closestPtTri(p, a, b, c v3) v3 {
	ab, ac, ap := b.sub(a), c.sub(a), p.sub(a)
	d1, d2 := ab.dot(ap), ac.dot(ap)
	if d1 <= 0 && d2 <= 0 {
		return a
	}
	bp := p.sub(b)
	d3, d4 := ab.dot(bp), ac.dot(bp)
	if d3 >= 0 && d4 <= d3 {
		return b
	}
	vc := d1*d4 - d3*d2
	if vc <= 0 && d1 >= 0 && d3 <= 0 {
		return a.add(ab.mul(d1 / (d1 - d3)))
	}
	cp := p.sub(c)
	d5, d6 := ab.dot(cp), ac.dot(cp)
	if d6 >= 0 && d5 <= d6 {
		return c
	}
	vb := d5*d2 - d1*d6
	if vb <= 0 && d2 >= 0 && d6 <= 0 {
		return a.add(ac.mul(d2 / (d2 - d6)))
	}
	va := d3*d6 - d5*d4
	if va <= 0 && (d4-d3) >= 0 && (d5-d6) >= 0 {
		w := (d4 - d3) / ((d4 - d3) + (d5 - d6))
		return b.add(c.sub(b).mul(w))
	}
	den := 1 / (va + vb + vc)
	return a.add(ab.mul(vb * den)).add(ac.mul(vc * den))
}

// distance between segments p1q1 and p2q2 (Ericson 5.1.9)
func segSegDist(p1, q1, p2, q2 v3) float64 {
	d1, d2, r := q1.sub(p1), q2.sub(p2), p1.sub(p2)
	a, e, f := d1.dot(d1), d2.dot(d2), d2.dot(r)
	const eps = 1e-18
	var s, t float64
	switch {
	case a <= eps && e <= eps:
		return dist(p1, p2)
	case a <= eps:
		s, t = 0, clamp01(f/e)
	default:
		c := d1.dot(r)
		if e <= eps {
			t, s = 0, clamp01(-c/a)
		} else {
			b := d1.dot(d2)
			den := a*e - b*b
			if den > eps*a*e {
				s = clamp01((b*f - c*e) / den)
			}
			t = (b*s + f) / e
			if t < 0 {
				t, s = 0, clamp01(-c/a)
			} else if t > 1 {
				t, s = 1, clamp01((b-c)/a)
			}
		}
	}
	return dist(p1.add(d1.mul(s)), p2.add(d2.mul(t)))
}

func segTriDist(p, q, a, b, c v3) float64 {
	n := b.sub(a).cross(c.sub(a))
	nn := n.norm()
	if nn > 0 {
		dp, dq := p.sub(a).dot(n), q.sub(a).dot(n)
		if (dp <= 0 && dq >= 0) || (dp >= 0 && dq <= 0) {
			if dp != dq {
				t := dp / (dp - dq)
				x := p.add(q.sub(p).mul(t))
				if dist(closestPtTri(x, a, b, c), x) <= 1e-6 {
					return 0
				}
			}
		}
	}
	d := math.Min(dist(closestPtTri(p, a, b, c), p), dist(closestPtTri(q, a, b, c), q))
	d = math.Min(d, segSegDist(p, q, a, b))
	d = math.Min(d, segSegDist(p, q, b, c))
	d = math.Min(d, segSegDist(p, q, c, a))
	return d
}

// segFootprintDist: distance between the chord p-q and the convex hull of the four corners
// (a thin tetrahedron: the minimum over its four faces; 0 if the chord pierces a face).
func segFootprintDist(p, q v3, k [4]v3) float64 {
	d := segTriDist(p, q, k[0], k[1], k[2])
	d = math.Min(d, segTriDist(p, q, k[0], k[2], k[3]))
	d = math.Min(d, segTriDist(p, q, k[0], k[1], k[3]))
	d = math.Min(d, segTriDist(p, q, k[1], k[2], k[3]))
	return d
}
