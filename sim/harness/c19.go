package main

import (
	"encoding/json"
	"fmt"
	"os"
	"sort"
	"time"

	"verif.local/simrt"
)

// varIDByName maps "pkgpath.var" to the instrumenter's variable id (the key of the access log).
var varIDByName = map[string]int{}

func loadVarIDs(inv *Inventory) {
	if inv == nil {
		return
	}
	for _, v := range inv.Vars {
		varIDByName[v.Name] = v.ID
	}
}

type C19Task struct {
	Calls     []*Call `json:"calls"`
	OrderSeed uint64  `json:"map_order_seed"` // 0 = canonical map order for this task
	Weights   [6]int  `json:"map_order_weights"`
}

type C19Replay struct {
	Tasks  []C19Task             `json:"tasks"`
	Sched  []simrt.SchedDecision `json:"schedule"`
	Clause string                `json:"clause"`
}

type c19Run struct {
	results           [][]Result
	findings          map[string]string
	sched             *simrt.Sched
	yields            []int
	accYields         []int
	stateSync         int
	stateUnattributed int
	stalled           bool
	unowned           bool
	overrun           bool
	evHash            uint64
	siteIDs           []int
}

func (t *C19Task) order() *simrt.OrderSource {
	if t.OrderSeed == 0 {
		return simrt.NewAscOrder()
	}
	return simrt.NewGenOrder(t.OrderSeed, t.Weights)
}

// runTasks executes the given tasks under one scheduler. only >= 0 runs that task alone.
func runTasks(tasks []C19Task, s *simrt.Sched, only int) *c19Run {
	run := &c19Run{findings: map[string]string{}, sched: s}
	simrt.RestoreGlobals()
	mat := NewMaterializer(true)
	type built struct {
		args []*Args
	}
	bs := make([]built, len(tasks))
	var allArgs []*Args
	for ti, t := range tasks {
		if only >= 0 && ti != only {
			continue
		}
		for _, c := range t.Calls {
			a := mat.Build(c)
			bs[ti].args = append(bs[ti].args, a)
			allArgs = append(allArgs, a)
		}
	}
	run.results = make([][]Result, len(tasks))
	syncAtCall := map[int]int{}
	callBase := make([]int, len(tasks))
	n := 0
	for ti, t := range tasks {
		callBase[ti] = n
		n += len(t.Calls)
	}
	type heldErr struct {
		ti, ci int
		e      error
	}
	var errObjs []heldErr
	var simTasks []*simrt.Task
	var monitor func(ran *simrt.Task, reason string)
	for ti := range tasks {
		if only >= 0 && ti != only {
			continue
		}
		ti := ti
		t := tasks[ti]
		run.results[ti] = make([]Result, len(t.Calls))
		st := s.AddTask(func() {
			for ci, c := range t.Calls {
				spec := opByName[c.Op]
				cur := simrt.CurTask()
				cur.CallIdx = callBase[ti] + ci
				syncAtCall[cur.ID] = cur.SyncOps
				if spec == nil {
					run.results[ti][ci] = Result{Panic: "unknown op " + c.Op}
					continue
				}
				delete(lastErr, cur.ID)
				simrt.CallDepth(1)
				res := guard(func() Result { return spec.Exec(c, bs[ti].args[ci]) })
				simrt.CallDepth(0)
				run.results[ti][ci] = res
				if e := lastErr[cur.ID]; e != nil {
					errObjs = append(errObjs, heldErr{ti, ci, e})
				}
				monitor(simrt.CurTask(), "call-end") // attribute state changes to the call that made them
			}
		}, t.order())
		simTasks = append(simTasks, st)
	}
	// monitors, evaluated at every scheduler step
	lastG := simrt.GlobalHashes()
	lastA := simrt.DeepHash(allArgs)
	monSteps, monSkipped := 0, false
	monitor = func(ran *simrt.Task, reason string) {
		if ran == nil {
			return
		}
		if ran.Child() && reason != "call-end" {
			// steps of goroutines the library started (there may be thousands per call): what they
			// change is seen at the next step of a caller task; the no-synchronisation clause
			// cannot speak about them anyway (being started is a synchronisation operation) - and
			// what is seen at that next step cannot be attributed to the task that takes it
			monSkipped = true
			return
		}
		// a call that hands work to goroutines over a channel blocks thousands of times: beyond
		// the first 256 steps of a run the hashes are taken at a thinning subset of the steps
		// (and at the end of every call). A change seen after steps were passed over cannot be
		// attributed to the task that happens to run now, so it is only counted then
		monSteps++
		if monSteps > 256 && reason != "call-end" {
			stride := 1
			for stride*256 < monSteps {
				stride *= 2
			}
			if monSteps%stride != 0 {
				monSkipped = true
				return
			}
		}
		attributable := !monSkipped
		monSkipped = false
		g := simrt.GlobalHashes()
		for i := range g {
			if i >= len(lastG) || g[i] == lastG[i] {
				continue
			}
			if !attributable {
				run.stateUnattributed++
			} else if ran.SyncOps == syncAtCall[ran.ID] {
				if _, dup := run.findings["package-state-modified-without-synchronisation"]; !dup {
					run.findings["package-state-modified-without-synchronisation"] = fmt.Sprintf("package-level variable %s changed while task %d executed call %d (%s) and the task performed no synchronisation operation in that call",
						simrt.Globals[i].Name, ran.ID, ran.CallIdx, callName(tasks, ran.CallIdx))
				}
			} else {
				run.stateSync++
			}
		}
		lastG = g
		if a := simrt.DeepHash(allArgs); a != lastA {
			if _, dup := run.findings["shared-argument-modified"]; !dup {
				run.findings["shared-argument-modified"] = fmt.Sprintf("an argument object changed while task %d executed call %d (%s)", ran.ID, ran.CallIdx, callName(tasks, ran.CallIdx))
			}
			lastA = a
		}
	}
	s.OnStep = monitor
	simrt.Active = true
	ok := s.Run(25 * time.Second)
	simrt.Active = false
	if !ok || s.UnownedSeen {
		run.stalled = true
		run.unowned = s.UnownedSeen || s.Unowned()
		return run
	}
	run.overrun = s.Overrun
	// the errors the calls returned, read again now that everything has run
	for _, h := range errObjs {
		func() {
			defer func() {
				if r := recover(); r != nil {
					run.results[h.ti][h.ci].ErrLate = fmt.Sprint("panic: ", r)
				}
			}()
			run.results[h.ti][h.ci].ErrLate = h.e.Error()
		}()
	}
	if s.Unowned() {
		run.unowned = true
	}
	if s.Deadlock {
		run.findings["deadlock"] = "no task runnable although not all tasks finished (all blocking is through simulated primitives)"
	}
	for _, st := range simTasks {
		run.yields = append(run.yields, st.Yields)
		run.accYields = append(run.accYields, st.AccYields)
	}
	h := uint64(14695981039346656037)
	for ti := range run.results {
		for ci := range run.results[ti] {
			h = h*1099511628211 ^ run.results[ti][ci].Fingerprint()
		}
	}
	for _, d := range s.Decisions {
		h = h*1099511628211 ^ uint64(d.Yield)<<20 ^ uint64(d.From)<<8 ^ uint64(d.To) ^ hashStrings(d.Kind)
	}
	run.evHash = h
	return run
}

func callName(tasks []C19Task, idx int) string {
	n := 0
	for _, t := range tasks {
		for _, c := range t.Calls {
			if n == idx {
				return c.Op
			}
			n++
		}
	}
	return "?"
}

type c19Eval struct {
	clauses      map[string]string
	inter        *c19Run
	solo         []*c19Run
	stalled      bool
	soloNondet   int
	sites        []int
	overrun      bool
	orderOnly    int
	unownedStall bool
}

// orderedOps: set-op catalogue entries whose output order is part of their contract.
var orderedOps = map[string]bool{"sp_to_ext_list": true, "ext_to_sp_list": true}

// keepStateClauses: after a run was cut short by the step budget only findings that do not
// depend on the run having completed are kept (races, unsynchronised state changes,
// argument mutation); results are not compared.
func keepStateClauses(solo, inter map[string]string) map[string]string {
	out := map[string]string{}
	for k, v := range solo {
		out[k] = v
	}
	for k, v := range inter {
		if k != "deadlock" {
			out[k] = v
		}
	}
	return out
}

// evalC19: every task alone (twice, to recognise calls that are not even repeatable on
// their own), then all tasks under the given scheduler; results compared bit for bit.
func evalC19(tasks []C19Task, mk func(solo []*c19Run) *simrt.Sched) *c19Eval {
	ev := &c19Eval{clauses: map[string]string{}}
	nondet := map[[2]int]bool{}
	for ti := range tasks {
		mkSolo := func() *simrt.Sched {
			s := simrt.NewSched(nil)
			s.AbortYields = 60_000_000
			return s
		}
		s1 := runTasks(tasks, mkSolo(), ti)
		s2 := runTasks(tasks, mkSolo(), ti)
		if s1.overrun || s2.overrun {
			ev.overrun = true
		}
		if s1.stalled || s2.stalled {
			ev.stalled = true
			ev.unownedStall = s1.unowned || s2.unowned
			return ev
		}
		for ci := range s1.results[ti] {
			if s1.results[ti][ci].Fingerprint() != s2.results[ti][ci].Fingerprint() {
				nondet[[2]int{ti, ci}] = true
				ev.soloNondet++
			}
		}
		for k, v := range s1.findings {
			ev.clauses[k] = "(task alone) " + v
		}
		ev.solo = append(ev.solo, s1)
	}
	if ev.overrun {
		return ev // a task did not even finish alone within the budget: nothing to compare
	}
	is := mk(ev.solo)
	tot := 0
	for _, so := range ev.solo {
		for _, y := range so.yields {
			tot += y
		}
	}
	is.AbortYields = 20*tot + 1_000_000
	in := runTasks(tasks, is, -1)
	ev.inter = in
	if in.overrun {
		ev.overrun = true
		ev.clauses = keepStateClauses(ev.clauses, in.findings)
		return ev
	}
	if in.stalled {
		ev.stalled = true
		ev.unownedStall = in.unowned
		return ev
	}
	for k, v := range in.findings {
		ev.clauses[k] = v
	}
	ev.sites = in.siteIDs
	for ti := range tasks {
		for ci := range tasks[ti].Calls {
			if nondet[[2]int{ti, ci}] {
				continue
			}
			a, b := &ev.solo[ti].results[ti][ci], &in.results[ti][ci]
			if a.Fingerprint() != b.Fingerprint() {
				if spec := opByName[tasks[ti].Calls[ci].Op]; spec != nil && spec.SetOp && !orderedOps[spec.Name] && canonResult(spec, a) == canonResult(spec, b) {
					// a set-valued result in another order: the properties speak of sets (a correct
					// cache hands a task the list another task computed under its own map order;
					// goroutines of the library finish in a schedule-dependent order)
					ev.orderOnly++
					continue
				}
				if _, dup := ev.clauses["result-differs-from-solo"]; !dup {
					ev.clauses["result-differs-from-solo"] = fmt.Sprintf("task %d call %d (%s): alone %s; interleaved %s", ti, ci, tasks[ti].Calls[ci].Op, a.String(), b.String())
				}
			}
		}
	}
	return ev
}

func genC19Tasks(g *Gen, seed uint64, idx int64) []C19Task {
	nt := 2 + g.R.Intn(5)
	if g.Deep {
		nt = 2 + g.R.Intn(7)
	}
	if g.R.Chance(1, 2) {
		nt = 2 + g.R.Intn(2)
	}
	// swarm: a random subset of the catalogue per case
	var pool []*OpSpec
	for _, o := range catalogue {
		if g.R.Chance(1, 3) {
			pool = append(pool, o)
		}
	}
	if len(pool) == 0 {
		pool = catalogue
	}
	pick := func() *OpSpec {
		tot := 0
		for _, o := range pool {
			tot += o.Weight
		}
		x := g.R.Intn(tot)
		for _, o := range pool {
			if x < o.Weight {
				return o
			}
			x -= o.Weight
		}
		return pool[0]
	}
	weights := swarmWeights(g.R)
	var prev []*Call
	tasks := make([]C19Task, nt)
	for ti := range tasks {
		nc := 1 + g.R.Intn(3)
		for c := 0; c < nc; c++ {
			var call *Call
			if len(prev) > 0 && g.R.Chance(1, 2) {
				// the same call on the same (shared) arguments as another task: the configuration
				// in which a per-function cache or scratch buffer is hit from two sides
				call = prev[g.R.Intn(len(prev))].clone()
				if g.R.Chance(1, 2) {
					// ... or its sibling: the same geometry with another scalar parameter (radius,
					// layer count, target zoom, altitude base) - the configuration in which a cache
					// keyed too coarsely, or a "current parameter" kept between two critical sections,
					// serves one call the other's value
					varyCall(g, call)
				}
			} else {
				call = pick().Gen(g)
			}
			if g.R.Chance(1, 8) && len(call.IDs) > 0 {
				// error paths are paths too: a malformed or out-of-range ID somewhere in the list
				call = call.clone()
				bad := []string{"not-an-id", "1/2/3", "5/x/1/5/0", "7/1/2"}[g.R.Intn(4)]
				pos := g.R.Intn(len(call.IDs) + 1)
				call.IDs = append(call.IDs[:pos], append([]string{bad}, call.IDs[pos:]...)...)
			}
			prev = append(prev, call)
			tasks[ti].Calls = append(tasks[ti].Calls, call)
		}
		if g.R.Chance(2, 3) {
			tasks[ti].OrderSeed = simrt.Mix(seed, uint64(idx), uint64(ti), 1900) | 1
			tasks[ti].Weights = weights
		}
	}
	return tasks
}

// varyCall changes one scalar parameter of a call in place, keeping its geometry and its
// cost class.
func varyCall(g *Gen, c *Call) {
	switch c.Op {
	case "line_ext":
		if len(c.Ints) >= 2 {
			c.Ints[1] = max64(0, min64(35, c.Ints[1]+[]int64{-2, -1, 1}[g.R.Intn(3)])) // another vertical zoom, same segment
		}
	case "corridor":
		if len(c.Ints) >= 2 && g.R.Chance(1, 4) {
			c.Ints[1] = max64(0, min64(35, c.Ints[1]+[]int64{-1, 1}[g.R.Intn(2)]))
		} else if len(c.Flts) > 0 && g.R.Chance(2, 3) {
			c.Flts[0] = round10(c.Flts[0] * []float64{0.1, 0.5, 0.8, 1.3}[g.R.Intn(4)])
		} else if len(c.Bools) > 0 {
			c.Bools[0] = !c.Bools[0]
		}
	case "fit_clearance":
		if len(c.Flts) > 0 {
			c.Flts[0] = round10(c.Flts[0] * []float64{0.5, 0.8, 1.3}[g.R.Intn(3)])
		}
	case "nlayer":
		if len(c.Ints) >= 2 && len(c.IDs) <= 30 {
			i := g.R.Intn(2)
			c.Ints[i] = (c.Ints[i] + 1) % 3
		}
	case "merge_ext", "merge":
		if len(c.Ints) > 0 && c.Ints[0] > 0 {
			c.Ints[0]--
		}
	case "tiles_to_ext", "tiles_to_sp", "ext_to_qalt":
		i := 1 // the altitude offset
		if c.Op == "ext_to_qalt" {
			i = 3
		}
		if len(c.Ints) > i {
			if g.R.Bool() && c.Ints[i] > 0 {
				c.Ints[i] = 0
			} else {
				c.Ints[i] += 1 + g.R.Range(0, 3)
			}
		}
	case "change_ext_zoom":
		if len(c.Ints) >= 2 {
			for i := range c.Ints[:2] {
				if c.Ints[i] > 0 {
					c.Ints[i]-- // coarser: never more expensive
				}
			}
		}
	case "project_roundtrip":
		if len(c.Ints) > 0 {
			for {
				e := []int64{3857, 6677, 32654, 4326}[g.R.Intn(4)]
				if e != c.Ints[0] {
					c.Ints[0] = e
					break
				}
			}
		}
	}
}

func callSetHash(tasks []C19Task) uint64 {
	h := uint64(1)
	for _, t := range tasks {
		for _, c := range t.Calls {
			h = h*1099511628211 ^ hashCall(c)
		}
		h = h*31 ^ t.OrderSeed
	}
	return h
}

func (w *Worker) runC19Case(idx int64) {
	g := &Gen{R: simrt.NewRand(simrt.Mix(w.Seed, uint64(idx), 19)), Deep: w.Tier == "thorough"}
	tasks := genC19Tasks(g, w.Seed, idx)
	if traceOn {
		b, _ := json.Marshal(tasks)
		trace("C19 case %d: %s", idx, b)
	}
	resetInputBufs()
	w.St.Cases++
	for _, t := range tasks {
		for _, c := range t.Calls {
			w.St.OpCount[c.Op]++
		}
	}
	budget := 0
	switch x := g.R.Intn(10); {
	case x == 0:
		budget = 0
	case x < 7:
		budget = 1 + g.R.Intn(3)
	default:
		budget = 4 + g.R.Intn(5)
		if g.Deep {
			budget = 4 + g.R.Intn(13)
		}
	}
	// every third case with a preemption budget: chained preemptions (the task that got control
	// is preempted again a few synchronisation operations later)
	chain := 0
	if budget > 0 && g.R.Chance(1, 3) {
		chain = 2 + g.R.Intn(5)
	}
	rs := simrt.NewRand(simrt.Mix(w.Seed, uint64(idx), 1901))
	mk := func(solo []*c19Run) *simrt.Sched {
		s := simrt.NewSched(rs)
		for b := 0; b < budget; b++ {
			t := rs.Intn(len(tasks))
			y, a := 0, 0
			if t < len(solo) && len(solo[t].yields) > 0 {
				y, a = solo[t].yields[0], solo[t].accYields[0]
			}
			if a > 0 && rs.Chance(1, 2) {
				s.PreemptAt[simrt.PKey{Task: t, Class: 1, Idx: rs.Intn(a)}] = true
			} else if y > 0 {
				s.PreemptAt[simrt.PKey{Task: t, Class: 0, Idx: rs.Intn(y)}] = true
			}
		}
		if chain > 0 {
			s.Chain = chain
		}
		// when the library starts goroutines of its own, also preempt at global positions: the
		// running task may then be one of those goroutines
		goCalls, total := 0, 0
		for _, so := range solo {
			goCalls += so.sched.GoCalls
			total += so.sched.YieldN
		}
		if goCalls > 0 && total > 0 {
			for b := 0; b < 2+budget; b++ {
				s.PreemptGlobal[rs.Intn(total)] = true
			}
		}
		return s
	}
	ev := evalC19(tasks, mk)
	if ev.stalled && ev.unownedStall {
		w.St.Extra["unowned_goroutines_seen"]++
		w.St.Errors = append(w.St.Errors, fmt.Sprintf("C19 case %d: goroutines the simulator did not start are running (a dependency or an unrewritten construct starts them); lane A stopped in this worker", idx))
		w.stop = true
		return
	}
	if ev.stalled {
		fmt.Fprintf(os.Stderr, "STALL: C19 case %d (seed %d): a task blocked in a construct the simulator does not own\n", idx, w.Seed)
		w.St.Errors = append(w.St.Errors, fmt.Sprintf("STALL in C19 case %d: a task blocked in a construct the simulator does not own (channel, select, Cond, timer) or ran away; worker stopped", idx))
		w.St.Extra["stalled_workers"]++
		w.stop = true
		return
	}
	if ev.inter != nil && ev.inter.unowned {
		w.St.Extra["unowned_goroutines_seen"]++
	}
	in := ev.inter
	if ev.overrun {
		w.St.Probes["runs_cut_short_by_step_budget"]++
	}
	if in == nil {
		w.recordCase(idx, callSetHash(tasks))
		return
	}
	w.St.Evaluations += int64(1 + 2*len(tasks))
	w.St.LogicalTime += int64(in.sched.YieldN)
	w.St.FaultKinds["preemption"] += int64(countKind(in.sched.Decisions, "preempt"))
	w.St.FaultKinds["preemption_inside_a_call"] += int64(in.sched.Switches)
	w.St.FaultKinds["task_order_choice"] += int64(countKind(in.sched.Decisions, "finish") + countKind(in.sched.Decisions, "start"))
	w.St.Probes["state_changes_under_synchronisation"] += int64(in.stateSync)
	w.St.Probes["state_changes_not_attributed_(long_run,_thinned_monitoring)"] += int64(in.stateUnattributed)
	w.St.Probes["calls_not_repeatable_alone"] += int64(ev.soloNondet)
	w.St.Probes["set_valued_result_in_another_order"] += int64(ev.orderOnly)
	w.St.Probes["library_go_statements_simulated"] += int64(in.sched.GoCalls)
	w.St.Probes["tasks"] += int64(len(tasks))
	shared := 0
	seen := map[uint64]bool{}
	for _, t := range tasks {
		for _, c := range t.Calls {
			h := hashCall(c)
			if seen[h] {
				shared++
			}
			seen[h] = true
		}
	}
	w.St.FaultKinds["shared_backing_array"] += int64(shared)
	for _, t := range tasks {
		if o := t.order(); o != nil && t.OrderSeed != 0 {
			w.St.FaultKinds["task_with_noncanonical_map_order"]++
		}
	}
	if in.sched.Switches > 0 {
		h := callSetHash(tasks)
		for _, x := range in.sched.SwitchSeq {
			h = h*1099511628211 ^ x
		}
		w.addNontrivial(h)
	}
	if len(w.St.Samples) < 3 && w.W == 0 && in.sched.Switches > 0 {
		w.St.Samples = append(w.St.Samples, map[string]any{"case": idx, "tasks": tasks, "schedule": in.sched.Decisions, "yields_per_task": in.yields, "preemptions_inside_calls": in.sched.Switches})
	}
	// determinism recheck: replay the recorded schedule and compare the event hash
	if idx%50 == 7 && len(ev.clauses) == 0 && !ev.overrun {
		rp := runTasks(tasks, simrt.NewReplaySched(in.sched.Decisions), -1)
		w.St.Rechecks++
		if rp.evHash != in.evHash {
			// not fatal: the tree may contain nondeterminism the simulator does not own (sync.Pool
			// hits, state that cannot be reset); every violation is replay-confirmed anyway
			w.St.RecheckBad++
		}
	}
	for _, cl := range sortedKeys(ev.clauses) {
		if w.classSeen("C19", "concurrent", cl) {
			w.report(&Violation{Property: "C19", Op: "concurrent", Clause: cl})
			continue
		}
		rp := &C19Replay{Tasks: tasks, Sched: in.sched.Decisions, Clause: cl}
		rp, note := shrinkC19(rp)
		e2 := evalC19Replay(rp)
		detail := ev.clauses[cl]
		if d, ok := e2.clauses[cl]; ok {
			detail = d
		}
		var sites []string
		for _, d := range rp.Sched {
			if d.Kind == "preempt" {
				sites = append(sites, w.siteLabel(fmt.Sprint(d.Site)))
			}
		}
		for _, s := range e2.sites {
			sites = append(sites, w.siteLabel(fmt.Sprint(s)))
		}
		w.report(&Violation{Property: "C19", Clause: cl, Op: "concurrent", Seed: w.Seed, Case: idx, Detail: detail, Sites: sites, Replay: mustJSON(rp), Shrunk: note})
	}
	w.recordCase(idx, in.evHash^callSetHash(tasks))
	if w.St.APICovered == nil {
		set := map[string]bool{}
		for _, o := range catalogue {
			for _, a := range opAPI[o.Name] {
				set[a] = true
			}
		}
		for a := range set {
			w.St.APICovered = append(w.St.APICovered, a)
		}
		sort.Strings(w.St.APICovered)
	}
}

func countKind(ds []simrt.SchedDecision, k string) int {
	n := 0
	for _, d := range ds {
		if d.Kind == k {
			n++
		}
	}
	return n
}

func evalC19Replay(rp *C19Replay) *c19Eval {
	return evalC19(rp.Tasks, func([]*c19Run) *simrt.Sched { return simrt.NewReplaySched(rp.Sched) })
}

func shrinkC19(rp *C19Replay) (*C19Replay, string) {
	target := rp.Clause
	budget := 120
	deadline := time.Now().Add(40 * time.Second)
	fails := func(c *C19Replay) bool {
		if budget <= 0 || time.Now().After(deadline) {
			return false
		}
		budget--
		e := evalC19Replay(c)
		return !e.stalled && e.clauses[target] != ""
	}
	if !fails(rp) {
		return rp, "not reproducible at shrink time"
	}
	cur := rp
	steps := 0
	// 1. drop preemptions
	for i := 0; i < len(cur.Sched); {
		if cur.Sched[i].Kind != "preempt" {
			i++
			continue
		}
		c := &C19Replay{Tasks: cur.Tasks, Clause: target}
		c.Sched = append(append([]simrt.SchedDecision{}, cur.Sched[:i]...), cur.Sched[i+1:]...)
		if fails(c) {
			cur = c
			steps++
		} else {
			i++
		}
	}
	// 2. drop whole tasks (any position; the remaining task ids are renumbered in the schedule)
	for k := len(cur.Tasks) - 1; k >= 0 && len(cur.Tasks) > 1; k-- {
		if k >= len(cur.Tasks) {
			continue
		}
		c := &C19Replay{Clause: target}
		c.Tasks = append(append([]C19Task{}, cur.Tasks[:k]...), cur.Tasks[k+1:]...)
		for _, d := range cur.Sched {
			if d.From == k || d.To == k {
				continue
			}
			if d.From > k {
				d.From--
			}
			if d.To > k {
				d.To--
			}
			c.Sched = append(c.Sched, d)
		}
		if fails(c) {
			cur = c
			steps++
		}
	}
	// 3. drop single calls (any position; preemption indices of that task lose their meaning,
	// the candidate is kept only if the same clause still fails)
	for ti := range cur.Tasks {
		for ci := len(cur.Tasks[ti].Calls) - 1; ci >= 0 && len(cur.Tasks[ti].Calls) > 1; ci-- {
			c := &C19Replay{Sched: cur.Sched, Clause: target}
			c.Tasks = append([]C19Task{}, cur.Tasks...)
			calls := append([]*Call{}, cur.Tasks[ti].Calls[:ci]...)
			calls = append(calls, cur.Tasks[ti].Calls[ci+1:]...)
			c.Tasks[ti].Calls = calls
			if fails(c) {
				cur = c
				steps++
			}
		}
	}
	// 4. canonical map order per task
	for ti := range cur.Tasks {
		if cur.Tasks[ti].OrderSeed == 0 {
			continue
		}
		c := &C19Replay{Sched: cur.Sched, Clause: target}
		c.Tasks = append([]C19Task{}, cur.Tasks...)
		c.Tasks[ti].OrderSeed = 0
		if fails(c) {
			cur = c
			steps++
		}
	}
	return cur, fmt.Sprintf("%d shrink steps; %d tasks, %d preemptions left", steps, len(cur.Tasks), countKind(cur.Sched, "preempt"))
}

func replayC19(raw json.RawMessage) (string, string, error) {
	rp := &C19Replay{}
	if err := json.Unmarshal(raw, rp); err != nil {
		return "", "", err
	}
	e := evalC19Replay(rp)
	if e.stalled {
		return "", "", fmt.Errorf("run stalled: a task blocked in a construct the simulator does not own")
	}
	if d, ok := e.clauses[rp.Clause]; ok {
		return rp.Clause, d, nil
	}
	if len(e.clauses) > 0 {
		return "", fmt.Sprint("other clauses violated: ", sortedKeys(e.clauses)), nil
	}
	return "", "", nil
}
