package main

import (
	"fmt"
	"sort"
	"strconv"

	"github.com/trajectoryjp/spatial_id_go/v4/common"
	"github.com/trajectoryjp/spatial_id_go/v4/common/consts"
	"github.com/trajectoryjp/spatial_id_go/v4/common/enum"
	sperrors "github.com/trajectoryjp/spatial_id_go/v4/common/errors"
	"github.com/trajectoryjp/spatial_id_go/v4/common/object"
	"github.com/trajectoryjp/spatial_id_go/v4/common/spatial"
	"github.com/trajectoryjp/spatial_id_go/v4/integrate"
	"github.com/trajectoryjp/spatial_id_go/v4/operated"
	"github.com/trajectoryjp/spatial_id_go/v4/shape"
	"github.com/trajectoryjp/spatial_id_go/v4/transform"
)

// opAPI lists, per catalogue entry, the exported functions and methods it exercises
// (package-relative names as the instrumenter's API scan prints them).
var opAPI = map[string][]string{
	"change_ext_zoom": {"integrate.ChangeExtendedSpatialIdsZoom", "integrate.HorizontalZoom", "integrate.VerticalZoom", "integrate.HorizontalZoomMinMax",
		"common/object.ExtendedSpatialID.ResetExtendedSpatialID", "common/object.ExtendedSpatialID.FieldParams", "common.Unique", "shape.CheckZoom"},
	"change_zoom":     {"integrate.ChangeSpatialIdsZoom", "shape.ConvertSpatialIdsToExtendedSpatialIds", "shape.ConvertExtendedSpatialIdsToSpatialIds"},
	"merge_ext":       {"integrate.MergeExtendedSpatialIds", "integrate.NewUnitDividedSpatialID", "integrate.NewHighSpatialID", "integrate.HighSpatialID.Merge", "integrate.HighSpatialID.IsDense", "common/object.ExtendedSpatialID.Higher", "common/object.ExtendedSpatialID.ID", "common/object.NewExtendedSpatialID"},
	"merge":           {"integrate.MergeSpatialIds"},
	"line_ext":        {"shape.GetExtendedSpatialIdsOnLine", "shape.GetExtendedSpatialIdsOnPoints", "operated.Get6spatialIdsAdjacentToFaces", "common.Include", "common/spatial.NewLineFromPoints", "common/spatial.Line3.ToPoint", "common/spatial.NewVectorFromPoints", "common/object.NewPoint"},
	"line":            {"shape.GetSpatialIdsOnLine"},
	"corridor":        {"transform.GetExtendedSpatialIdsWithinRadiusOfLine", "transform.FitClearanceAroundExtendedSpatialID", "operated.GetNspatialIdsAroundVoxcels", "common.Difference", "common.Union", "shape.GetPointOnExtendedSpatialId"},
	"n6":              {"operated.Get6spatialIdsAdjacentToFaces", "operated.GetShiftingSpatialID"},
	"n8":              {"operated.Get8spatialIdsAroundHorizontal"},
	"n26":             {"operated.Get26spatialIdsAroundVoxel"},
	"nlayer":          {"operated.GetNspatialIdsAroundVoxcels"},
	"overlap_ext":     {"detector.CheckExtendedSpatialIdsOverlap"},
	"overlap_ext_arr": {"detector.CheckExtendedSpatialIdsArrayOverlap"},
	"overlap_sp":      {"detector.CheckSpatialIdsOverlap", "transform.ConvertZToMinMaxAltitudekey"},
	"overlap_sp_arr":  {"detector.CheckSpatialIdsArrayOverlap"},
	"ext_to_qv": {"transform.ConvertExtendedSpatialIDsToQuadkeysAndVerticalIDs", "common/object.NewFromExtendedSpatialIDToQuadkeyAndVerticalID",
		"common/object.FromExtendedSpatialIDToQuadkeyAndVerticalID.QuadkeyZoom", "common/object.FromExtendedSpatialIDToQuadkeyAndVerticalID.InnerIDList",
		"common/object.FromExtendedSpatialIDToQuadkeyAndVerticalID.VerticalZoom", "common/object.FromExtendedSpatialIDToQuadkeyAndVerticalID.MaxHeight", "common/object.FromExtendedSpatialIDToQuadkeyAndVerticalID.MinHeight"},
	"sp_to_qv": {"transform.ConvertSpatialIDsToQuadkeysAndVerticalIDs"},
	"ext_to_qalt": {"transform.ConvertExtendedSpatialIDsToQuadkeysAndAltitudekeys", "common/object.NewFromExtendedSpatialIDToQuadkeyAndAltitudekey",
		"common/object.FromExtendedSpatialIDToQuadkeyAndAltitudekey.QuadkeyZoom", "common/object.FromExtendedSpatialIDToQuadkeyAndAltitudekey.InnerIDList",
		"common/object.FromExtendedSpatialIDToQuadkeyAndAltitudekey.AltitudekeyZoom", "common/object.FromExtendedSpatialIDToQuadkeyAndAltitudekey.ZBaseExponent", "common/object.FromExtendedSpatialIDToQuadkeyAndAltitudekey.ZBaseOffset"},
	"qv_to_ext": {"transform.ConvertQuadkeysAndVerticalIDsToExtendedSpatialIDs", "common/object.NewQuadkeyAndVerticalID", "common/object.QuadkeyAndVerticalID.QuadkeyZoom", "common/object.QuadkeyAndVerticalID.Quadkey",
		"common/object.QuadkeyAndVerticalID.VZoom", "common/object.QuadkeyAndVerticalID.VIndex", "common/object.QuadkeyAndVerticalID.MaxHeight", "common/object.QuadkeyAndVerticalID.MinHeight"},
	"qv_to_sp": {"transform.ConvertQuadkeysAndVerticalIDsToSpatialIDs"},
	"tiles_to_ext": {"transform.ConvertTileXYZsToExtendedSpatialIDs", "transform.ConvertAltitudekeyToMinMaxZ", "common/object.NewTileXYZ", "common/object.TileXYZ.HZoom", "common/object.TileXYZ.X", "common/object.TileXYZ.Y",
		"common/object.TileXYZ.VZoom", "common/object.TileXYZ.Z", "common/object.ExtendedSpatialID.SetX", "common/object.ExtendedSpatialID.SetY", "common/object.ExtendedSpatialID.SetZ", "common/object.ExtendedSpatialID.SetZoom", "common.CalculateArithmeticShift"},
	"tiles_to_sp":    {"transform.ConvertTileXYZsToSpatialIDs", "transform.ConvertExtendedSpatialIDToSpatialIDs"},
	"ext_to_sp":      {"transform.ConvertExtendedSpatialIDToSpatialIDs", "common/object.ExtendedSpatialID.HZoom", "common/object.ExtendedSpatialID.VZoom", "common/object.ExtendedSpatialID.X", "common/object.ExtendedSpatialID.Y", "common/object.ExtendedSpatialID.Z"},
	"sp_to_ext_list": {"shape.ConvertSpatialIdsToExtendedSpatialIds"},
	"ext_to_sp_list": {"shape.ConvertExtendedSpatialIdsToSpatialIds"},
}

func renderPoints(ps []*object.Point, err error) Result {
	r := Result{Err: errStr(err)}
	for _, p := range ps {
		if p == nil {
			r.Raw = append(r.Raw, "nil")
			continue
		}
		r.Raw = append(r.Raw, fmtF(p.Lon())+","+fmtF(p.Lat())+","+fmtF(p.Alt()))
	}
	for i, p := range ps { // the caller owns the returned points
		if p != nil && !noScribble {
			p.SetAlt(-12345.5)
			p.SetLon(-179.5)
		}
		ps[i] = nil
	}
	return r
}

func registerC19Ops() {
	add := func(name string, api []string, gen func(g *Gen) *Call, exec func(c *Call, a *Args) Result) {
		reg(&OpSpec{Name: name, Gen: gen, Exec: exec, Weight: 5})
		opAPI[name] = api
	}
	genPts := func(op string, same bool) func(g *Gen) *Call {
		return func(g *Gen) *Call {
			hz := g.zoom(0, 35)
			vz := g.zoom(0, 35)
			n := 1 + g.R.Intn(5)
			var pts [][3]float64
			for i := 0; i < n; i++ {
				lon, lat := g.lonLat()
				pts = append(pts, [3]float64{lon, lat, float64(g.R.Range(-500, 9000)) + g.R.Float64()})
			}
			if same {
				return &Call{Op: op, Pts: pts, Ints: []int64{hz}}
			}
			return &Call{Op: op, Pts: pts, Ints: []int64{hz, vz}}
		}
	}
	add("points_to_ext", []string{"shape.GetExtendedSpatialIdsOnPoints", "common/object.Point.Lon", "common/object.Point.Lat", "common/object.Point.Alt"}, genPts("points_to_ext", false),
		func(c *Call, a *Args) Result {
			return strs(shape.GetExtendedSpatialIdsOnPoints(a.Pts, i64(c, 0), i64(c, 1)))
		})
	add("points_to_sp", []string{"shape.GetSpatialIdsOnPoints"}, genPts("points_to_sp", true),
		func(c *Call, a *Args) Result { return strs(shape.GetSpatialIdsOnPoints(a.Pts, i64(c, 0))) })
	add("ext_to_points", []string{"shape.GetPointOnExtendedSpatialId"},
		func(g *Gen) *Call {
			return &Call{Op: "ext_to_points", IDs: g.cluster(g.zoom(0, 35), g.zoom(0, 35), 1), Ints: []int64{g.R.Range(0, 2)}}
		},
		func(c *Call, a *Args) Result {
			return renderPoints(shape.GetPointOnExtendedSpatialId(first(a.IDs), enum.PointOption(i64(c, 0))))
		})
	add("sp_to_points", []string{"shape.GetPointOnSpatialId"},
		func(g *Gen) *Call {
			z := g.zoom(0, 35)
			return &Call{Op: "sp_to_points", IDs: []string{extToSp(g.cluster(z, z, 1)[0])}, Ints: []int64{g.R.Range(0, 1)}}
		},
		func(c *Call, a *Args) Result {
			return renderPoints(shape.GetPointOnSpatialId(first(a.IDs), enum.PointOption(i64(c, 0))))
		})
	add("project_roundtrip", []string{"shape.ConvertPointListToProjectedPointList", "shape.ConvertProjectedPointListToPointList"},
		func(g *Gen) *Call {
			c := genPts("project_roundtrip", true)(g)
			c.Ints = []int64{[]int64{3857, 3857, 6677, 32654, 4326, 99999}[g.R.Intn(6)]}
			return c
		},
		func(c *Call, a *Args) Result {
			pp, err := shape.ConvertPointListToProjectedPointList(a.Pts, int(i64(c, 0)))
			r := Result{Err: errStr(err)}
			for _, p := range pp {
				r.Raw = append(r.Raw, fmtF(p.X)+","+fmtF(p.Y)+","+fmtF(p.Alt))
			}
			if err == nil {
				back := renderPoints(shape.ConvertProjectedPointListToPointList(pp, int(i64(c, 0))))
				r.Raw = append(r.Raw, back.Raw...)
				r.Aux = back.Err
			}
			return r
		})
	add("fit_clearance", []string{"transform.FitClearanceAroundExtendedSpatialID"},
		func(g *Gen) *Call {
			hz := g.zoom(8, 30)
			id := g.cluster(hz, g.zoom(0, 35), 1)[0]
			a := parseInts(id)
			// keep away from the polar rows
			a[2] = pow2(hz)/4 + a[2]/2
			return &Call{Op: "fit_clearance", IDs: []string{extID(a[0], a[1], a[2], a[3], a[4])}, Flts: []float64{g.R.Float64() * 2.5 * voxelWidthM(hz, 60)}}
		},
		func(c *Call, a *Args) Result {
			h, v, err := transform.FitClearanceAroundExtendedSpatialID(first(a.IDs), f64(c, 0))
			return Result{Aux: fmt.Sprint(h, v), Err: errStr(err)}
		})
	add("altkeys", []string{"transform.ConvertZToMinMaxAltitudekey", "transform.ConvertAltitudekeyToMinMaxZ", "common.CalculateArithmeticShift"},
		func(g *Gen) *Call {
			exp := g.R.Range(18, 30)
			return &Call{Op: "altkeys", Ints: []int64{g.R.Range(-40, 40), g.R.Range(20, 30), g.R.Range(18, 30), exp, g.R.Range(0, 64)}}
		},
		func(c *Call, a *Args) Result {
			lo, hi, err := transform.ConvertZToMinMaxAltitudekey(i64(c, 0), i64(c, 1), i64(c, 2), i64(c, 3), i64(c, 4))
			r := Result{Aux: fmt.Sprint(lo, hi), Err: errStr(err)}
			if err == nil {
				z0, z1, e2 := transform.ConvertAltitudekeyToMinMaxZ(lo, i64(c, 2), i64(c, 1), i64(c, 3), i64(c, 4))
				r.Raw = []string{fmt.Sprint(z0, z1, errStr(e2))}
			}
			return r
		})
	add("shift", []string{"operated.GetShiftingSpatialID", "transform.GetVoxelIDfromSpatialID"},
		func(g *Gen) *Call {
			return &Call{Op: "shift", IDs: g.cluster(g.zoom(0, 35), g.zoom(0, 35), 1), Ints: []int64{g.R.Range(-70, 70), g.R.Range(-70, 70), g.R.Range(-70, 70)}}
		},
		func(c *Call, a *Args) Result {
			s := operated.GetShiftingSpatialID(first(a.IDs), i64(c, 0), i64(c, 1), i64(c, 2))
			return Result{Raw: []string{s}, Aux: fmt.Sprint(transform.GetVoxelIDfromSpatialID(first(a.IDs)))}
		})
	add("zoom_parts", []string{"integrate.HorizontalZoom", "integrate.HorizontalZoomMinMax", "integrate.VerticalZoom", "shape.CheckZoom"},
		func(g *Gen) *Call {
			z := g.zoom(1, 30)
			return &Call{Op: "zoom_parts", Ints: []int64{z, g.R.Range(0, pow2(z)-1), g.R.Range(0, pow2(z)-1), max64(0, min64(35, z+g.R.Range(-5, 3))), g.R.Range(-9, 9)}}
		},
		func(c *Call, a *Args) Result {
			r := Result{Raw: integrate.HorizontalZoom(i64(c, 0), i64(c, 1), i64(c, 2), i64(c, 3))}
			r.Raw = append(r.Raw, integrate.VerticalZoom(i64(c, 0), i64(c, 4), i64(c, 3))...)
			x0, y0, x1, y1 := integrate.HorizontalZoomMinMax(i64(c, 0), i64(c, 1), i64(c, 2), i64(c, 3))
			r.Aux = fmt.Sprint(x0, y0, x1, y1, shape.CheckZoom(i64(c, 3)), shape.CheckZoom(i64(c, 4)))
			return r
		})
	add("merge_objects", []string{"integrate.NewUnitDividedSpatialID", "integrate.NewHighSpatialID", "integrate.HighSpatialID.Merge", "integrate.HighSpatialID.IsDense", "common/object.NewExtendedSpatialID"},
		func(g *Gen) *Call {
			hz, vz := g.zoom(1, 28), g.zoom(1, 28)
			m := pow2(hz)
			return &Call{Op: "merge_objects", IDs: g.siblings(hz, g.R.Range(0, m-1), g.R.Range(0, m-1), vz, g.vIndex(vz), 9, 10)}
		},
		func(c *Call, a *Args) Result {
			var hi *integrate.HighSpatialID
			for _, id := range a.IDs {
				s, err := object.NewExtendedSpatialID(id)
				if err != nil {
					return Result{Err: errStr(err)}
				}
				u := integrate.NewUnitDividedSpatialID(s, 0, 0)
				h := integrate.NewHighSpatialID(u, 1, 1)
				if hi == nil {
					hi = h
				} else {
					hi.Merge(h)
				}
			}
			if hi == nil {
				return Result{Aux: "empty"}
			}
			return Result{Aux: fmt.Sprint(hi.ID(), hi.IsDense())}
		})
	add("object_api", []string{"common/object.NewPoint", "common/object.Point.SetLon", "common/object.Point.SetLat", "common/object.Point.SetAlt", "common/object.Point.Lon", "common/object.Point.Lat", "common/object.Point.Alt",
		"common/object.NewExtendedSpatialID", "common/object.ExtendedSpatialID.ResetExtendedSpatialID", "common/object.ExtendedSpatialID.SetX", "common/object.ExtendedSpatialID.SetY", "common/object.ExtendedSpatialID.SetZ",
		"common/object.ExtendedSpatialID.SetZoom", "common/object.ExtendedSpatialID.X", "common/object.ExtendedSpatialID.Y", "common/object.ExtendedSpatialID.Z", "common/object.ExtendedSpatialID.HZoom",
		"common/object.ExtendedSpatialID.VZoom", "common/object.ExtendedSpatialID.FieldParams", "common/object.ExtendedSpatialID.ID", "common/object.ExtendedSpatialID.Higher",
		"common/object.NewTileXYZ", "common/object.TileXYZ.SetHZoom", "common/object.TileXYZ.SetX", "common/object.TileXYZ.SetY", "common/object.TileXYZ.SetVZoom", "common/object.TileXYZ.SetZ",
		"common/object.TileXYZ.HZoom", "common/object.TileXYZ.X", "common/object.TileXYZ.Y", "common/object.TileXYZ.VZoom", "common/object.TileXYZ.Z",
		"common/object.NewQuadkeyAndVerticalID", "common/object.QuadkeyAndVerticalID.SetQuadkeyZoom", "common/object.QuadkeyAndVerticalID.SetQuadkey", "common/object.QuadkeyAndVerticalID.SetVZoom",
		"common/object.QuadkeyAndVerticalID.SetVIndex", "common/object.QuadkeyAndVerticalID.SetMaxHeight", "common/object.QuadkeyAndVerticalID.SetMinHeight",
		"common/object.NewFromExtendedSpatialIDToQuadkeyAndVerticalID", "common/object.FromExtendedSpatialIDToQuadkeyAndVerticalID.SetQuadkeyZoom", "common/object.FromExtendedSpatialIDToQuadkeyAndVerticalID.SetInnerIDList",
		"common/object.FromExtendedSpatialIDToQuadkeyAndVerticalID.SetVerticalZoom", "common/object.FromExtendedSpatialIDToQuadkeyAndVerticalID.SetMaxHeight", "common/object.FromExtendedSpatialIDToQuadkeyAndVerticalID.SetMinHeight",
		"common/object.NewFromExtendedSpatialIDToQuadkeyAndAltitudekey", "common/object.FromExtendedSpatialIDToQuadkeyAndAltitudekey.SetQuadkeyZoom", "common/object.FromExtendedSpatialIDToQuadkeyAndAltitudekey.SetInnerIDList",
		"common/object.FromExtendedSpatialIDToQuadkeyAndAltitudekey.SetAltitudekeyZoom", "common/object.FromExtendedSpatialIDToQuadkeyAndAltitudekey.SetZBaseExponent", "common/object.FromExtendedSpatialIDToQuadkeyAndAltitudekey.SetZBaseOffset"},
		func(g *Gen) *Call {
			lon, lat := g.lonLat()
			z := g.zoom(0, 35)
			return &Call{Op: "object_api", IDs: g.cluster(z, g.zoom(0, 35), 2), Flts: []float64{lon, lat, g.R.Float64() * 1000}, Ints: []int64{g.R.Range(0, 35), g.R.Range(0, 1000), g.R.Range(0, 1000), g.R.Range(0, 35), g.R.Range(-50, 50)}}
		},
		func(c *Call, a *Args) Result {
			// everything here works on task-private objects: setters are not "shared read-only" use
			var out []string
			p, err := object.NewPoint(f64(c, 0), f64(c, 1), f64(c, 2))
			out = append(out, fmt.Sprint(p.Lon(), p.Lat(), p.Alt(), errStr(err)))
			out = append(out, fmt.Sprint(errStr(p.SetLon(f64(c, 0)/2)), errStr(p.SetLat(f64(c, 1)/2)), errStr(p.SetLon(200)), errStr(p.SetLat(-90))))
			p.SetAlt(1.5)
			out = append(out, fmt.Sprint(p.Lon(), p.Lat(), p.Alt()))
			e, err := object.NewExtendedSpatialID(first(a.IDs))
			out = append(out, fmt.Sprint(e.ID(), e.FieldParams(), errStr(err), e.X(), e.Y(), e.Z(), e.HZoom(), e.VZoom()))
			if len(a.IDs) > 1 {
				out = append(out, fmt.Sprint(errStr(e.ResetExtendedSpatialID(a.IDs[1])), e.ID(), errStr(e.ResetExtendedSpatialID("1/2/3"))))
			}
			e.SetX(i64(c, 1))
			e.SetY(i64(c, 2))
			e.SetZ(i64(c, 4))
			e.SetZoom(i64(c, 0), i64(c, 3))
			out = append(out, e.ID(), e.Higher(min64(2, i64(c, 0)), min64(1, i64(c, 3))).ID())
			t, err := object.NewTileXYZ(i64(c, 0), i64(c, 1), i64(c, 2), i64(c, 3), i64(c, 4))
			if err == nil {
				out = append(out, fmt.Sprint(t.HZoom(), t.X(), t.Y(), t.VZoom(), t.Z(), errStr(t.SetHZoom(40)), errStr(t.SetVZoom(3)), errStr(t.SetHZoom(7))))
				t.SetX(1)
				t.SetY(2)
				t.SetZ(3)
				out = append(out, fmt.Sprint(t.HZoom(), t.X(), t.Y(), t.VZoom(), t.Z()))
			} else {
				out = append(out, errStr(err))
			}
			q := object.NewQuadkeyAndVerticalID(i64(c, 0), i64(c, 1), i64(c, 3), i64(c, 4), 10, 0)
			q.SetQuadkeyZoom(3)
			q.SetQuadkey(5)
			q.SetVZoom(4)
			q.SetVIndex(6)
			q.SetMaxHeight(9)
			q.SetMinHeight(1)
			out = append(out, fmt.Sprint(q.QuadkeyZoom(), q.Quadkey(), q.VZoom(), q.VIndex(), q.MaxHeight(), q.MinHeight()))
			fv := object.NewFromExtendedSpatialIDToQuadkeyAndVerticalID(1, [][2]int64{{1, 2}}, 2, 3, 0)
			fv.SetQuadkeyZoom(i64(c, 0))
			fv.SetInnerIDList([][2]int64{{i64(c, 1), i64(c, 2)}})
			fv.SetVerticalZoom(i64(c, 3))
			fv.SetMaxHeight(5)
			fv.SetMinHeight(-5)
			out = append(out, fmt.Sprint(fv.QuadkeyZoom(), fv.InnerIDList(), fv.VerticalZoom(), fv.MaxHeight(), fv.MinHeight()))
			fa := object.NewFromExtendedSpatialIDToQuadkeyAndAltitudekey(1, [][2]int64{{1, 2}}, 2, 25, 0)
			fa.SetQuadkeyZoom(i64(c, 0))
			fa.SetInnerIDList([][2]int64{{i64(c, 1), i64(c, 2)}})
			fa.SetAltitudekeyZoom(i64(c, 3))
			fa.SetZBaseExponent(24)
			fa.SetZBaseOffset(7)
			out = append(out, fmt.Sprint(fa.QuadkeyZoom(), fa.InnerIDList(), fa.AltitudekeyZoom(), fa.ZBaseExponent(), fa.ZBaseOffset()))
			return Result{Raw: out}
		})
	add("common_api", []string{"common.AlmostEqual", "common.Max", "common.Min", "common.DegreeToRadian", "common.RadianToDegree", "common.Union", "common.Difference", "common.Intersect", "common.Unique", "common.Include", "common.Combinations", "common.CalculateArithmeticShift"},
		func(g *Gen) *Call {
			z := g.zoom(0, 20)
			return &Call{Op: "common_api", IDs: g.cluster(z, z, 2+g.R.Intn(5)), IDs2: g.cluster(z, z, 1+g.R.Intn(5)), Ints: []int64{g.R.Range(-20, 20), g.R.Range(-5, 5), g.R.Range(2, 6), g.R.Range(1, 3)}, Flts: []float64{g.R.Float64() * 360, g.R.Float64()}}
		},
		func(c *Call, a *Args) Result {
			var out []string
			mx, e1 := common.Max(c.Ints)
			mn, e2 := common.Min(c.Ints)
			out = append(out, fmt.Sprint(mx, mn, errStr(e1), errStr(e2), common.AlmostEqual(f64(c, 0), f64(c, 0)+f64(c, 1)*1e-9, 1e-9), common.DegreeToRadian(f64(c, 0)), common.RadianToDegree(f64(c, 1))))
			out = append(out, strconv.Itoa(len(common.Union(a.IDs, a.IDs2))), strconv.Itoa(len(common.Unique(a.IDs))))
			// Difference and Intersect are set operations (差集合, 積集合): compared as sets - an
			// implementation that builds them from a map returns them in map order, which varies
			// from call to call in production too
			df := append([]string(nil), common.Difference(a.IDs, a.IDs2)...)
			is := append([]string(nil), common.Intersect(a.IDs, a.IDs2)...)
			sort.Strings(df)
			sort.Strings(is)
			out = append(out, df...)
			out = append(out, "|")
			out = append(out, is...)
			out = append(out, fmt.Sprint(common.Include(a.IDs, first(a.IDs2)), common.CalculateArithmeticShift(i64(c, 0), i64(c, 1))))
			n, k := i64(c, 2), i64(c, 3)
			if k > n {
				k = n // Combinations does not terminate for k > n; not a concurrency matter
			}
			common.Combinations(n, k, func(p []int64) { out = append(out, fmt.Sprint(p)) })
			return Result{Raw: out}
		})
	add("spatial_api", []string{"common/spatial.NewVectorFromPoints", "common/spatial.Vector3.Add", "common/spatial.Vector3.Sub", "common/spatial.Vector3.Scale", "common/spatial.Vector3.Dot", "common/spatial.Vector3.Cross",
		"common/spatial.Vector3.Norm", "common/spatial.Vector3.L1Norm", "common/spatial.Vector3.Unit", "common/spatial.Vector3.Cos", "common/spatial.NewLineFromPoints", "common/spatial.Line3.ToPoint", "common/spatial.Line3.End", "common/spatial.Line3.Start",
		"common/spatial.UniqueAppend", "common/spatial.MaxPoint", "common/spatial.MinPoint", "common/spatial.Point3.IsClose", "common/spatial.Point3.Translate", "common/spatial.Point3.DistancePoint",
		"common/spatial.NewMatrix3", "common/spatial.NewUnitMatrix3", "common/spatial.Matrix3.Mul", "common/spatial.Matrix3.MulVec", "common/spatial.RotateBetweenVector", "common/spatial.QuatFromAxisAngle"},
		func(g *Gen) *Call {
			f := make([]float64, 9)
			for i := range f {
				f[i] = float64(g.R.Range(-50, 50)) + g.R.Float64()
			}
			return &Call{Op: "spatial_api", Flts: f}
		},
		func(c *Call, a *Args) Result {
			f := c.Flts
			for len(f) < 9 {
				f = append(f, 1)
			}
			p, q, r := spatial.Point3{X: f[0], Y: f[1], Z: f[2]}, spatial.Point3{X: f[3], Y: f[4], Z: f[5]}, spatial.Point3{X: f[6], Y: f[7], Z: f[8]}
			v, w := spatial.NewVectorFromPoints(p, q), spatial.NewVectorFromPoints(p, r)
			l := spatial.NewLineFromPoints(p, q)
			pts := spatial.UniqueAppend([]*spatial.Point3{&p, &q}, &r, 1e-9)
			pts = spatial.UniqueAppend(pts, &p, 1e-9)
			mx, e1 := spatial.MaxPoint(pts, v)
			mn, e2 := spatial.MinPoint(pts, v)
			m := spatial.NewMatrix3(f[0], f[1], f[2], f[3], f[4], f[5], f[6], f[7], f[8])
			out := []string{fmt.Sprint(v.Add(w), v.Sub(w), v.Scale(2), v.Dot(w), v.Cross(w), v.Norm(), v.L1Norm(), v.Unit(), v.Cos(w)),
				fmt.Sprint(l.ToPoint(0.25), l.Start(), l.End(), len(pts), *mx, *mn, errStr(e1), errStr(e2), p.IsClose(q, 1), p.Translate(v), p.DistancePoint(q)),
				fmt.Sprint(m.Mul(spatial.NewUnitMatrix3()), m.MulVec(v), spatial.RotateBetweenVector(v, w), spatial.QuatFromAxisAngle(v, f[8]))}
			return Result{Raw: out}
		})
	add("errors_api", []string{"common/errors.NewSpatialIdError"},
		func(g *Gen) *Call { return &Call{Op: "errors_api", Ints: []int64{g.R.Range(0, 3)}} },
		func(c *Call, a *Args) Result {
			codes := []string{"InputValueError", "OptionFailedError", "ValueConvertError", "OtherError"}
			_ = codes
			var e error
			switch i64(c, 0) {
			case 0:
				e = sperrors.NewSpatialIdError(sperrors.InputValueErrorCode, "d")
			case 1:
				e = sperrors.NewSpatialIdError(sperrors.OptionFailedErrorCode, "")
			case 2:
				e = sperrors.NewSpatialIdError(sperrors.ValueConvertErrorCode, "x")
			default:
				e = sperrors.NewSpatialIdError(sperrors.OtherErrorCode, "")
			}
			return Result{Aux: e.Error() + consts.SpatialIDDelimiter}
		})
}
