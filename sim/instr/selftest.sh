#!/bin/bash
# Self-test of the instrumenter on a fixture with every construct it has a rule for.
set -u
export GOFLAGS=-mod=mod GOPROXY=off GOSUMDB=off GOTOOLCHAIN=local
V="$(cd "$(dirname "$0")/../.." && pwd)"; S="${1:-$(mktemp -d /tmp/verifsim.XXXXXX)}"
mkdir -p "$S/fix" && cp "$V"/sim/instr/testdata/fix/*.go "$V"/sim/instr/testdata/fix/go.mod "$S/fix/" || exit 2
(cd "$S/fix" && go test -count=1 ./...) > "$S/fix0.log" 2>&1 || { cat "$S/fix0.log"; echo "ERROR: fixture fails before instrumentation"; exit 2; }
"$V/sim/bin/instr" -out "$S/fixinv.json" "fix=$S/fix" || { echo "ERROR: instrumentation of the fixture failed"; exit 2; }
printf '\nrequire verif.local/simrt v0.0.0\n\nreplace verif.local/simrt => %s\n' "$V/sim/simrt" >> "$S/fix/go.mod"
cp "$V/sim/instr/testdata/fix/sim_test.go.txt" "$S/fix/sim_test.go"
(cd "$S/fix" && go vet ./... && go test -count=1 -race ./...) > "$S/fix1.log" 2>&1 || { cat "$S/fix1.log"; echo "ERROR: instrumented fixture fails"; exit 2; }
tail -2 "$S/fix1.log"
python3 - "$S/fixinv.json" <<'PY' || exit 2
import json,sys,collections
inv=json.load(open(sys.argv[1]))
c=collections.Counter(s['kind'] for s in inv['sites'])
print("fixture sites:",dict(c),"vars:",len(inv['vars']))
assert c['maprange']>=15 and c['sync']>=25 and c['go']>=8 and c['access']>=25 and c['loop']>=18, c
PY
echo "instrumenter self-test: ok"
