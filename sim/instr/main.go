// Command instr puts the simulator's seams into a scratch copy of a Go module by splicing
// single-line hook calls into the source text (line numbers are preserved):
//
//	R1  range over a map            -> keys come from simrt.MapOrder (simulator-chosen order)
//	R2  function entry, loop body   -> simrt.Enter (yield point)
//	R3  statement touching a package-level variable -> simrt.Access (yield point + access log)
//	R4  per package: registration of the address of every package-level variable
//	R5  sync.Mutex/RWMutex/Once/WaitGroup calls and go statements -> simrt shims;
//	    sync/atomic, sync.Pool, sync.Map calls -> simrt.SyncOp before the statement
//	R6  audit: constructs the simulator does not own are listed in the inventory
//
// It never touches /repo: the caller hands it directories that are copies.
package main

import (
	"encoding/json"
	"flag"
	"fmt"
	"go/ast"
	"go/token"
	"go/types"
	"os"
	"path/filepath"
	"sort"
	"strings"

	"golang.org/x/tools/go/packages"
)

type Site struct {
	ID   int    `json:"id"`
	Kind string `json:"kind"` // maprange|enter|access|sync|go
	File string `json:"file"` // relative to the module root, prefixed with the module label
	Line int    `json:"line"`
	Func string `json:"func"`
	Note string `json:"note,omitempty"`
}

type VarInfo struct {
	ID   int    `json:"id"`
	Name string `json:"name"` // pkgpath.name
	Type string `json:"type"`
	File string `json:"file"`
	Line int    `json:"line"`
}

type Audit struct {
	What string `json:"what"`
	File string `json:"file"`
	Line int    `json:"line"`
}

type Inventory struct {
	Sites    []Site    `json:"sites"`
	Vars     []VarInfo `json:"vars"`
	Unowned  []Audit   `json:"unowned_nondeterminism"`
	Unsim    []Audit   `json:"unsimulated_blocking"`
	Exported []string  `json:"exported_api"`
	Packages []string  `json:"packages"`
	Files    int       `json:"files"`
}

type edit struct {
	start, end int // byte offsets; start==end is an insertion
	text       string
	prio       int // order among insertions at the same offset (lower first)
}

type fileCtx struct {
	path  string
	rel   string
	src   []byte
	tf    *token.File
	edits []edit
	keepImport string
}

var syncRecvIdent = map[*ast.Ident]bool{}

var (
	inv      Inventory
	varIDs   = map[*types.Var]int{}
	instrPkg = map[string]bool{}
	fatal    []string
)

func main() {
	out := flag.String("out", "inventory.json", "inventory output")
	flag.Parse()
	dirs := flag.Args()
	if len(dirs) == 0 {
		fmt.Fprintln(os.Stderr, "usage: instr -out inv.json label=dir ...")
		os.Exit(2)
	}
	type mod struct {
		label, dir string
		pkgs       []*packages.Package
	}
	var mods []mod
	for _, a := range dirs {
		label, dir, ok := strings.Cut(a, "=")
		if !ok {
			dir, label = a, filepath.Base(a)
		}
		cfg := &packages.Config{
			Mode: packages.NeedName | packages.NeedFiles | packages.NeedCompiledGoFiles | packages.NeedSyntax |
				packages.NeedTypes | packages.NeedTypesInfo | packages.NeedImports | packages.NeedDeps,
			Dir: dir,
			Env: append(os.Environ(), "GOFLAGS=-mod=mod", "GOPROXY=off", "GOSUMDB=off"),
		}
		pkgs, err := packages.Load(cfg, "./...")
		if err != nil {
			fmt.Fprintln(os.Stderr, "instr: load:", err)
			os.Exit(2)
		}
		bad := false
		for _, p := range pkgs {
			for _, e := range p.Errors {
				fmt.Fprintf(os.Stderr, "instr: %s: %v\n", p.PkgPath, e)
				bad = true
			}
		}
		if bad {
			os.Exit(2)
		}
		sort.Slice(pkgs, func(i, j int) bool { return pkgs[i].PkgPath < pkgs[j].PkgPath })
		mods = append(mods, mod{label, dir, pkgs})
		packages.Visit(pkgs, nil, func(p *packages.Package) { allPkgs[p.PkgPath] = p })
		for _, p := range pkgs {
			instrPkg[p.PkgPath] = true
		}
	}
	// pass 1: number package-level variables of all instrumented packages
	for _, m := range mods {
		for _, p := range m.pkgs {
			scope := p.Types.Scope()
			names := scope.Names()
			sort.Strings(names)
			for _, n := range names {
				if v, ok := scope.Lookup(n).(*types.Var); ok {
					id := len(inv.Vars)
					varIDs[v] = id
					pos := p.Fset.Position(v.Pos())
					rel, _ := filepath.Rel(m.dir, pos.Filename)
					inv.Vars = append(inv.Vars, VarInfo{ID: id, Name: p.PkgPath + "." + n, Type: v.Type().String(), File: m.label + "/" + rel, Line: pos.Line})
				}
			}
		}
	}
	// pass 2: rewrite
	for _, m := range mods {
		for _, p := range m.pkgs {
			inv.Packages = append(inv.Packages, p.PkgPath)
			if p.Name == "main" {
				// commands are not library surface; leave them alone
				continue
			}
			instrumentPackage(m.label, m.dir, p)
		}
	}
	finishInitAudit()
	if len(fatal) > 0 {
		for _, f := range fatal {
			fmt.Fprintln(os.Stderr, "instr: unsupported:", f)
		}
		os.Exit(2)
	}
	sort.Strings(inv.Exported)
	b, _ := json.MarshalIndent(inv, "", " ")
	if err := os.WriteFile(*out, b, 0o644); err != nil {
		fmt.Fprintln(os.Stderr, "instr:", err)
		os.Exit(2)
	}
	fmt.Printf("instr: %d packages, %d files, %d sites, %d package-level vars, %d unowned, %d unsimulated\n",
		len(inv.Packages), inv.Files, len(inv.Sites), len(inv.Vars), len(inv.Unowned), len(inv.Unsim))
}

func newSite(kind string, fc *fileCtx, label string, pos token.Pos, fn, note string) int {
	id := len(inv.Sites)
	inv.Sites = append(inv.Sites, Site{ID: id, Kind: kind, File: label + "/" + fc.rel, Line: fc.tf.Line(pos), Func: fn, Note: note})
	return id
}

func (fc *fileCtx) off(p token.Pos) int { return fc.tf.Offset(p) }
func (fc *fileCtx) text(n ast.Node) string {
	return string(fc.src[fc.off(n.Pos()):fc.off(n.End())])
}
func (fc *fileCtx) insert(at token.Pos, s string, prio int) {
	o := fc.off(at)
	fc.edits = append(fc.edits, edit{o, o, s, prio})
}
func (fc *fileCtx) replace(from, to token.Pos, s string) {
	fc.edits = append(fc.edits, edit{fc.off(from), fc.off(to), s, 0})
}

// auditInitGoroutines: a goroutine started by a package initialiser (an init function or the
// initialiser of a package variable, directly or through functions of the package it calls)
// exists before any simulation starts and is not a task of any scheduler: what it does - wait
// on a channel for work, say - is outside the simulator's control.
func auditInitGoroutines(label, dir string, p *packages.Package) {
	info := p.TypesInfo
	hasGo := map[*types.Func]bool{}
	callees := map[*types.Func][]*types.Func{}
	var inits []ast.Node
	scan := func(body ast.Node) (goStmt bool, calls []*types.Func) {
		ast.Inspect(body, func(n ast.Node) bool {
			switch x := n.(type) {
			case *ast.GoStmt:
				goStmt = true
			case *ast.CallExpr:
				var f *types.Func
				switch fn := x.Fun.(type) {
				case *ast.Ident:
					f, _ = info.Uses[fn].(*types.Func)
				case *ast.SelectorExpr:
					if s := info.Selections[fn]; s != nil {
						f, _ = s.Obj().(*types.Func)
					} else {
						f, _ = info.Uses[fn.Sel].(*types.Func)
					}
				}
				if f != nil && f.Pkg() != nil && instrPkg[f.Pkg().Path()] {
					calls = append(calls, f.Origin())
				}
			}
			return true
		})
		return
	}
	for _, f := range p.Syntax {
		for _, d := range f.Decls {
			switch x := d.(type) {
			case *ast.FuncDecl:
				if x.Body == nil {
					continue
				}
				if x.Recv == nil && x.Name.Name == "init" {
					inits = append(inits, x.Body)
					continue
				}
				if fn, ok := info.Defs[x.Name].(*types.Func); ok {
					g, c := scan(x.Body)
					hasGo[fn], callees[fn] = g, c
				}
			case *ast.GenDecl:
				if x.Tok == token.VAR {
					for _, sp := range x.Specs {
						if vs, ok := sp.(*ast.ValueSpec); ok {
							for _, v := range vs.Values {
								inits = append(inits, v)
							}
						}
					}
				}
			}
		}
	}
	initGoFuncs = append(initGoFuncs, initScan{label: label, dir: dir, p: p, inits: inits, scan: scan})
	for fn, g := range hasGo {
		allHasGo[fn] = g
	}
	for fn, c := range callees {
		allCallees[fn] = c
	}
}

type initScan struct {
	label, dir string
	p          *packages.Package
	inits      []ast.Node
	scan       func(ast.Node) (bool, []*types.Func)
}

var initGoFuncs []initScan
var allHasGo = map[*types.Func]bool{}
var allCallees = map[*types.Func][]*types.Func{}

// finishInitAudit runs after all packages were scanned (initialisers may call into other
// packages of the library).
func finishInitAudit() {
	memo := map[*types.Func]int{}
	var starts func(f *types.Func) bool
	starts = func(f *types.Func) bool {
		switch memo[f] {
		case 1, 3:
			return false
		case 2:
			return true
		}
		memo[f] = 3
		r := allHasGo[f]
		for _, c := range allCallees[f] {
			if r {
				break
			}
			r = starts(c)
		}
		memo[f] = 1
		if r {
			memo[f] = 2
		}
		return r
	}
	for _, is := range initGoFuncs {
		for _, body := range is.inits {
			g, calls := is.scan(body)
			for _, c := range calls {
				if starts(c) {
					g = true
				}
			}
			if g {
				pos := is.p.Fset.Position(body.Pos())
				rel, _ := filepath.Rel(is.dir, pos.Filename)
				inv.Unsim = append(inv.Unsim, Audit{"goroutine started by a package initialiser", is.label + "/" + rel, pos.Line})
			}
		}
	}
}

func instrumentPackage(label, dir string, p *packages.Package) {
	auditInitGoroutines(label, dir, p)
	// exported API listing
	scope := p.Types.Scope()
	for _, n := range scope.Names() {
		o := scope.Lookup(n)
		if !o.Exported() {
			continue
		}
		switch x := o.(type) {
		case *types.Func:
			inv.Exported = append(inv.Exported, p.PkgPath+"."+n)
		case *types.TypeName:
			if named, ok := x.Type().(*types.Named); ok {
				for i := 0; i < named.NumMethods(); i++ {
					m := named.Method(i)
					if m.Exported() {
						inv.Exported = append(inv.Exported, p.PkgPath+"."+n+"."+m.Name())
					}
				}
			}
		}
	}
	var pkgVars []string
	for i, f := range p.Syntax {
		path := p.CompiledGoFiles[i]
		if !strings.HasSuffix(path, ".go") || strings.HasSuffix(path, "_test.go") {
			continue
		}
		src, err := os.ReadFile(path)
		if err != nil {
			fatal = append(fatal, err.Error())
			continue
		}
		rel, _ := filepath.Rel(dir, path)
		fc := &fileCtx{path: path, rel: rel, src: src, tf: p.Fset.File(f.Pos())}
		inv.Files++
		instrumentFile(label, p, f, fc)
		if len(fc.edits) == 0 {
			continue
		}
		// import, on the package clause line so that line numbers stay
		fc.insert(f.Name.End(), `; import __simrt "verif.local/simrt"`, 0)
		if fc.keepImport != "" {
			fc.edits = append(fc.edits, edit{len(fc.src), len(fc.src), "\nvar _ " + fc.keepImport + ".Mutex\n", 9})
		}
		if err := os.WriteFile(path, applyEdits(fc), 0o644); err != nil {
			fatal = append(fatal, err.Error())
		}
	}
	// R4: registration file
	names := scope.Names()
	sort.Strings(names)
	for _, n := range names {
		if _, ok := scope.Lookup(n).(*types.Var); ok && n != "_" {
			pkgVars = append(pkgVars, n)
		}
	}
	// named types of this package that declare lock methods of their own (as opposed to
	// inheriting them from an embedded sync.Mutex / RWMutex): the dynamic lock shims call those
	// methods - their bodies are instrumented - instead of looking for an embedded primitive
	var ownLockers []string
	for _, n := range names {
		tn, ok := scope.Lookup(n).(*types.TypeName)
		if !ok {
			continue
		}
		named, ok := tn.Type().(*types.Named)
		if !ok {
			continue
		}
		for i := 0; i < named.NumMethods(); i++ {
			switch named.Method(i).Name() {
			case "Lock", "Unlock", "RLock", "RUnlock", "TryLock", "TryRLock":
				ownLockers = append(ownLockers, p.PkgPath+"."+n)
			}
		}
	}
	if (len(pkgVars) > 0 || len(ownLockers) > 0) && len(p.CompiledGoFiles) > 0 {
		var b strings.Builder
		fmt.Fprintf(&b, "// Code generated by /verif/sim/instr. DO NOT EDIT.\n\npackage %s\n\nimport __simrt \"verif.local/simrt\"\n\nfunc init() {\n\t__simrt.RegisterGlobals(%q, []__simrt.Global{\n", p.Name, p.PkgPath)
		for _, n := range pkgVars {
			fmt.Fprintf(&b, "\t\t{Name: %q, Ptr: &%s},\n", n, n)
		}
		b.WriteString("\t})\n")
		for _, n := range ownLockers {
			fmt.Fprintf(&b, "\t__simrt.RegisterOwnLocker(%q)\n", n)
		}
		b.WriteString("}\n")
		gen := filepath.Join(filepath.Dir(p.CompiledGoFiles[0]), "zz_verifsim_globals.go")
		if err := os.WriteFile(gen, []byte(b.String()), 0o644); err != nil {
			fatal = append(fatal, err.Error())
		}
	}
}

func applyEdits(fc *fileCtx) []byte {
	es := fc.edits
	sort.SliceStable(es, func(i, j int) bool {
		if es[i].start != es[j].start {
			return es[i].start < es[j].start
		}
		// insertions before replacements starting at the same offset
		ii, ij := es[i].start == es[i].end, es[j].start == es[j].end
		if ii != ij {
			return ii
		}
		return es[i].prio < es[j].prio
	})
	var out []byte
	pos := 0
	for _, e := range es {
		if e.start < pos {
			fatal = append(fatal, fmt.Sprintf("%s: overlapping edits at offset %d", fc.rel, e.start))
			continue
		}
		out = append(out, fc.src[pos:e.start]...)
		out = append(out, e.text...)
		pos = e.end
	}
	out = append(out, fc.src[pos:]...)
	return out
}

// enclosing statement lists: a statement is "listed" if it is a direct element of a
// BlockStmt, CaseClause or CommClause body, i.e. another statement may be put before it.
func instrumentFile(label string, p *packages.Package, f *ast.File, fc *fileCtx) {
	info := p.TypesInfo
	goInfo = info
	listed := map[ast.Stmt]bool{}
	labeled := map[ast.Stmt]*ast.LabeledStmt{}
	ast.Inspect(f, func(n ast.Node) bool {
		switch x := n.(type) {
		case *ast.BlockStmt:
			for _, s := range x.List {
				switch s.(type) {
				case *ast.CaseClause, *ast.CommClause:
					// the clause itself is no place to put a statement before (its expressions
					// belong to the switch); only the statements of its body are
				default:
					listed[s] = true
				}
			}
		case *ast.CaseClause:
			for _, s := range x.Body {
				listed[s] = true
			}
		case *ast.CommClause:
			for _, s := range x.Body {
				listed[s] = true
			}
		case *ast.LabeledStmt:
			labeled[x.Stmt] = x
		}
		return true
	})

	type accKey struct {
		stmt ast.Stmt
		v    int
		kind int
	}
	accDone := map[accKey]bool{}
	syncDone := map[ast.Stmt]bool{}
	syncHost := map[ast.Stmt]bool{}

	var funcName string
	var stack []ast.Node

	// nearest listed statement on the stack
	hostStmt := func() ast.Stmt {
		for i := len(stack) - 1; i >= 0; i-- {
			if s, ok := stack[i].(ast.Stmt); ok && listed[s] {
				// a labeled statement is listed itself; its inner statement is not
				return s
			}
			if _, ok := stack[i].(*ast.FuncLit); ok {
				// do not hoist out of a closure body: keep searching is wrong, the
				// closure's own statements are listed, so we only get here for
				// expression-bodied positions; stop.
				return nil
			}
		}
		return nil
	}

	writeRoots := func(s ast.Stmt) map[*ast.Ident]bool {
		roots := map[*ast.Ident]bool{}
		root := func(e ast.Expr) {
			for {
				switch x := e.(type) {
				case *ast.ParenExpr:
					e = x.X
				case *ast.IndexExpr:
					e = x.X
				case *ast.SelectorExpr:
					// pkg.Var or v.field
					if id, ok := x.X.(*ast.Ident); ok {
						if _, isPkg := info.Uses[id].(*types.PkgName); isPkg {
							roots[x.Sel] = true
							return
						}
					}
					e = x.X
				case *ast.StarExpr:
					e = x.X
				case *ast.SliceExpr:
					e = x.X
				case *ast.Ident:
					roots[x] = true
					return
				default:
					return
				}
			}
		}
		switch x := s.(type) {
		case *ast.AssignStmt:
			for _, l := range x.Lhs {
				root(l)
			}
		case *ast.IncDecStmt:
			root(x.X)
		case *ast.ExprStmt:
			if c, ok := x.X.(*ast.CallExpr); ok {
				if id, ok := c.Fun.(*ast.Ident); ok && (id.Name == "delete" || id.Name == "clear") && len(c.Args) > 0 {
					if _, isB := info.Uses[id].(*types.Builtin); isB {
						root(c.Args[0])
					}
				}
			}
		case *ast.RangeStmt:
			if x.Tok == token.ASSIGN {
				if x.Key != nil {
					root(x.Key)
				}
				if x.Value != nil {
					root(x.Value)
				}
			}
		}
		return roots
	}

	// R3b: local variables captured by a closure that is started with `go` are shared between
	// goroutines the library starts itself: their accesses are logged too (keyed by address,
	// since every call of the enclosing function has its own instance).
	sharedLocal := map[*types.Var]int{}
	ast.Inspect(f, func(n ast.Node) bool {
		g, ok := n.(*ast.GoStmt)
		if !ok {
			return true
		}
		fl, ok := g.Call.Fun.(*ast.FuncLit)
		if !ok {
			return true
		}
		ast.Inspect(fl.Body, func(m ast.Node) bool {
			id, ok := m.(*ast.Ident)
			if !ok {
				return true
			}
			v, ok := info.Uses[id].(*types.Var)
			if !ok || v.IsField() || v.Pkg() == nil || v.Parent() == nil || v.Parent() == v.Pkg().Scope() {
				return true
			}
			if _, isGlobal := varIDs[v]; isGlobal {
				return true
			}
			if v.Pos() >= fl.Pos() && v.Pos() < fl.End() {
				return true // declared inside the closure: goroutine-private
			}
			if _, seen := sharedLocal[v]; !seen {
				lid := len(inv.Vars)
				pos := p.Fset.Position(v.Pos())
				inv.Vars = append(inv.Vars, VarInfo{ID: lid, Name: p.PkgPath + ":local:" + v.Name(), Type: v.Type().String(), File: label + "/" + fc.rel, Line: pos.Line})
				sharedLocal[v] = lid
			}
			return true
		})
		return true
	})

	// atomicCallback: the function being visited is a method that code outside the library
	// typically calls back while holding a lock of its own (Write of an io.Writer handed to a
	// log.Logger, Less/Swap of a sort.Interface, String, Error, ...). A preemption inside would
	// park the task with that foreign lock held and the next task would block on it for real,
	// so such methods get no yield points; their map ranges and sync calls are rewritten as
	// everywhere, and the race detector watches their accesses all the same.
	atomicCallback := false
	var visit func(n ast.Node) bool
	visit = func(n ast.Node) bool {
		if n == nil {
			stack = stack[:len(stack)-1]
			return true
		}
		stack = append(stack, n)
		switch x := n.(type) {
		case *ast.FuncDecl:
			funcName = x.Name.Name
			if x.Recv != nil && len(x.Recv.List) > 0 {
				funcName = recvName(x.Recv.List[0].Type) + "." + x.Name.Name
			}
			atomicCallback = isCallbackMethod(info, x)
			if x.Body != nil && atomicCallback {
				// (counts as a synchronisation operation of the task: whoever calls back usually
				// holds a lock of its own, which the simulator cannot see)
				id := newSite("sync", fc, label, x.Pos(), funcName, "callback-shaped method")
				fc.insert(x.Body.Lbrace+1, fmt.Sprintf(" __simrt.SyncMark(%d);", id), 0)
			}
			if x.Body != nil && !atomicCallback {
				id := newSite("enter", fc, label, x.Pos(), funcName, "")
				fc.insert(x.Body.Lbrace+1, fmt.Sprintf(" __simrt.Enter(%d);", id), 0)
			}
		case *ast.ForStmt:
			if x.Body != nil && !atomicCallback {
				id := newSite("loop", fc, label, x.Pos(), funcName, "")
				fc.insert(x.Body.Lbrace+1, fmt.Sprintf(" __simrt.Enter(%d);", id), 3)
			}
		case *ast.RangeStmt:
			if x.Body != nil && !atomicCallback {
				id := newSite("loop", fc, label, x.Pos(), funcName, "")
				fc.insert(x.Body.Lbrace+1, fmt.Sprintf(" __simrt.Enter(%d);", id), 3)
			}
			if t := info.TypeOf(x.X); t != nil {
				if isMapLike(t) {
					rewriteMapRange(label, p, fc, x, labeled[x], funcName)
				}
				if _, ok := t.Underlying().(*types.Chan); ok {
					rewriteChanRange(label, fc, x, funcName)
				}
			}
		case *ast.GoStmt:
			rewriteGo(label, fc, x, funcName, listed[x])
		case *ast.SelectStmt:
			// not simulated: the tree then runs on real goroutines (RealGo); the communication
			// clauses keep their syntax (the channel shims would not fit there)
			pos := p.Fset.Position(n.Pos())
			inv.Unsim = append(inv.Unsim, Audit{"select", label + "/" + fc.rel, pos.Line})
			for _, cl := range x.Body.List {
				if cc, ok := cl.(*ast.CommClause); ok && cc.Comm != nil {
					ast.Inspect(cc.Comm, func(m ast.Node) bool {
						if _, isLit := m.(*ast.FuncLit); isLit {
							return false
						}
						if m != nil {
							inSelectComm[m] = true
						}
						return true
					})
				}
			}
		case *ast.SendStmt:
			// ch <- v  ->  __simrt.ChanSend(site, ch, v)
			if !inSelectComm[n] {
				sid := newSite("chan", fc, label, x.Pos(), funcName, "send")
				fc.insert(x.Pos(), fmt.Sprintf("__simrt.ChanSend(%d, ", sid), 8)
				fc.replace(x.Chan.End(), x.Value.Pos(), ", ")
				fc.insert(x.End(), ")", 9)
			}
		case *ast.UnaryExpr:
			if x.Op == token.ARROW && !inSelectComm[n] {
				// <-ch  ->  __simrt.ChanRecv(site, ch); the two-value form gets ChanRecv2
				name := "ChanRecv"
				if len(stack) >= 2 {
					switch par := stack[len(stack)-2].(type) {
					case *ast.AssignStmt:
						if len(par.Lhs) == 2 && len(par.Rhs) == 1 && par.Rhs[0] == ast.Expr(x) {
							name = "ChanRecv2"
						}
					case *ast.ValueSpec:
						if len(par.Names) == 2 && len(par.Values) == 1 && par.Values[0] == ast.Expr(x) {
							name = "ChanRecv2"
						}
					}
				}
				sid := newSite("chan", fc, label, x.Pos(), funcName, "receive")
				fc.replace(x.OpPos, x.X.Pos(), fmt.Sprintf("__simrt.%s(%d, ", name, sid))
				fc.insert(x.End(), ")", 9)
			}
		case *ast.SelectorExpr:
			// a method VALUE of a sync primitive (unlock := mu.Unlock; defer unlock()): bound to a
			// closure over the shim, with the receiver evaluated here as the language does
			if len(stack) >= 2 {
				if ce, ok := stack[len(stack)-2].(*ast.CallExpr); ok && ce.Fun == ast.Expr(x) {
					break
				}
			}
			if sel := info.Selections[x]; sel != nil && sel.Kind() == types.MethodExpr {
				// (*sync.RWMutex).RLock and the like: a function literal over the shim, the type
				// spelled as in the source
				if m, ok := sel.Obj().(*types.Func); ok && m.Pkg() != nil && m.Pkg().Path() == "sync" {
					rs := strings.TrimPrefix(m.Type().(*types.Signature).Recv().Type().String(), "*")
					shim, extra, call := "", "", ""
					switch rs {
					case "sync.Mutex":
						shim = map[string]string{"Lock": "MutexLock", "Unlock": "MutexUnlock"}[m.Name()]
					case "sync.RWMutex":
						shim = map[string]string{"Lock": "RWLock", "Unlock": "RWUnlock", "RLock": "RWRLock", "RUnlock": "RWRUnlock"}[m.Name()]
					case "sync.WaitGroup":
						shim = map[string]string{"Done": "WGDone", "Wait": "WGWait"}[m.Name()]
						if m.Name() == "Add" {
							shim, extra, call = "WGAdd", ", __n int", ", __n"
						}
					case "sync.Once":
						if m.Name() == "Do" {
							shim, extra, call = "OnceDo", ", __f func()", ", __f"
						}
					}
					typ := strings.TrimSpace(fc.text(x.X))
					for strings.HasPrefix(typ, "(") && strings.HasSuffix(typ, ")") {
						typ = strings.TrimSpace(typ[1 : len(typ)-1])
					}
					if shim != "" && strings.HasPrefix(typ, "*") {
						sid := newSite("sync", fc, label, x.Pos(), funcName, rs+"."+m.Name()+" (method expression)")
						fc.replace(x.Pos(), x.End(), fmt.Sprintf("(func(__r %s%s) { __simrt.%s(%d, __r%s) })", typ, extra, shim, sid, call))
					}
				}
			}
			if sel := info.Selections[x]; sel != nil && sel.Kind() == types.MethodVal {
				if _, isIface := info.TypeOf(x.X).Underlying().(*types.Interface); isIface {
					// unlock := l.Unlock with l an interface value (sync.Locker or a library-defined
					// one): bound to the dynamic shim, the receiver evaluated here
					switch x.Sel.Name {
					case "Lock", "Unlock", "RLock", "RUnlock":
						if mt, ok := sel.Type().(*types.Signature); ok && mt.Params().Len() == 0 && mt.Results().Len() == 0 {
							sid := newSite("sync", fc, label, x.Pos(), funcName, "interface."+x.Sel.Name+" (method value)")
							fc.insert(x.Pos(), fmt.Sprintf("__simrt.DynBind(%d, ", sid), 8)
							fc.replace(x.X.End(), x.End(), fmt.Sprintf(", %q)", x.Sel.Name))
						}
					}
				}
			}
			if sel := info.Selections[x]; sel != nil && sel.Kind() == types.MethodVal {
				if m, ok := sel.Obj().(*types.Func); ok && m.Pkg() != nil && m.Pkg().Path() == "sync" {
					rs := strings.TrimPrefix(m.Type().(*types.Signature).Recv().Type().String(), "*")
					shim := ""
					switch rs {
					case "sync.Mutex":
						shim = map[string]string{"Lock": "MutexLock", "Unlock": "MutexUnlock"}[m.Name()]
					case "sync.RWMutex":
						shim = map[string]string{"Lock": "RWLock", "Unlock": "RWUnlock", "RLock": "RWRLock", "RUnlock": "RWRUnlock"}[m.Name()]
					case "sync.WaitGroup":
						shim = map[string]string{"Done": "WGDone", "Wait": "WGWait"}[m.Name()]
					}
					recv, okRecv := recvPointerText(info, fc, x.X, sel.Index())
					if shim != "" && okRecv {
						sid := newSite("sync", fc, label, x.Pos(), funcName, rs+"."+m.Name()+" (method value)")
						fc.replace(x.Pos(), x.End(), fmt.Sprintf("__simrt.Bind0(__simrt.%s, %d, %s)", shim, sid, recv))
						ast.Inspect(x.X, func(n ast.Node) bool {
							if id, ok := n.(*ast.Ident); ok {
								syncRecvIdent[id] = true
							}
							return true
						})
					}
				}
			}
		case *ast.CallExpr:
			handleCall(label, p, fc, x, funcName, hostStmt, syncDone)
		case *ast.Ident:
			v, ok := info.Uses[x].(*types.Var)
			if !ok || syncRecvIdent[x] {
				break
			}
			id, ok := varIDs[v]
			isLocal := false
			if !ok {
				if id, ok = sharedLocal[v]; !ok {
					break
				}
				isLocal = true
			}
			host := hostStmt()
			if host == nil {
				break // package-level initialiser or expression position without a host
			}
			if isLocal && !(v.Pos() < host.Pos()) {
				break // declared inside the host statement: no place to take its address before it
			}
			kind := 0
			if writeRoots(innermostStmt(stack))[x] {
				kind = 1
			}
			k := accKey{host, id, kind}
			if accDone[k] {
				break
			}
			accDone[k] = true
			note := "read"
			if kind == 1 {
				note = "write"
			}
			hk := kind
			if hostHasSyncMark(info, host, syncHost) {
				// the statement performs an atomic / sync.Map / sync.Pool operation: the access is
				// recorded as a synchronised one (acquire before, release after)
				hk |= 2
				note += " (in a statement with a synchronisation operation)"
			}
			sid := newSite("access", fc, label, x.Pos(), funcName, inv.Vars[id].Name+" "+note)
			at := host.Pos()
			if ls, ok := host.(*ast.LabeledStmt); ok {
				at = ls.Pos()
			}
			// a yield point of class 1 (and a site in the inventory); which memory the statement
			// touches is not recorded: ordering is judged by the race detector in lane R
			_ = isLocal
			if !atomicCallback {
				fc.insert(at, fmt.Sprintf("__simrt.Access(%d, %d, %d); ", sid, id, hk), 1)
			}
		}
		return true
	}
	ast.Inspect(f, visit)
}





// innermostStmt returns the innermost statement on the stack (listed or not): the
// statement whose syntactic form decides whether an identifier in it is written.
func innermostStmt(stack []ast.Node) ast.Stmt {
	for i := len(stack) - 1; i >= 0; i-- {
		if s, ok := stack[i].(ast.Stmt); ok {
			switch s.(type) {
			case *ast.AssignStmt, *ast.IncDecStmt, *ast.ExprStmt, *ast.RangeStmt:
				return s
			}
		}
	}
	return nil
}

func recvName(e ast.Expr) string {
	switch x := e.(type) {
	case *ast.StarExpr:
		return recvName(x.X)
	case *ast.Ident:
		return x.Name
	case *ast.IndexExpr:
		return recvName(x.X)
	case *ast.IndexListExpr:
		return recvName(x.X)
	}
	return "?"
}

func isSimpleOperand(e ast.Expr) bool {
	switch x := e.(type) {
	case *ast.Ident:
		return true
	case *ast.SelectorExpr:
		return isSimpleOperand(x.X)
	case *ast.ParenExpr:
		return isSimpleOperand(x.X)
	}
	return false
}

// isMapLike: a map type, or a type parameter all of whose type-set terms are maps
// (`M ~map[K]V`): ranging over either is a seam.
func isMapLike(t types.Type) bool {
	if _, ok := t.Underlying().(*types.Map); ok {
		return true
	}
	tp, ok := t.(*types.TypeParam)
	if !ok {
		return false
	}
	iface, ok := tp.Constraint().Underlying().(*types.Interface)
	if !ok {
		return false
	}
	found := false
	for i := 0; i < iface.NumEmbeddeds(); i++ {
		switch e := iface.EmbeddedType(i).(type) {
		case *types.Union:
			for j := 0; j < e.Len(); j++ {
				if _, isMap := e.Term(j).Type().Underlying().(*types.Map); !isMap {
					return false
				}
				found = true
			}
		default:
			if _, isMap := e.Underlying().(*types.Map); isMap {
				found = true
			} else if _, isIface := e.Underlying().(*types.Interface); !isIface {
				return false
			}
		}
	}
	return found
}

func rewriteMapRange(label string, p *packages.Package, fc *fileCtx, x *ast.RangeStmt, lab *ast.LabeledStmt, fn string) {
	id := newSite("maprange", fc, label, x.Pos(), fn, fc.text(x.X))
	// for k, v := range M {   ->   for __itN := __simrt.MapIter(N, M); __itN.Next(); { k, v := __itN.K, __itN.V;
	// The operand stays where it is (it is evaluated once, as the range clause does, and may
	// carry edits of its own: a closure with loops, a shimmed call, another map range); a label
	// stays on the for statement, so continue / break / goto with that label keep their meaning.
	// Next skips keys that have been deleted since the iteration began and reads the value at
	// that moment, as the language allows.
	it := fmt.Sprintf("__it%d", id)
	keyTxt, valTxt := "_", "_"
	if x.Key != nil {
		keyTxt = fc.text(x.Key)
	}
	if x.Value != nil {
		valTxt = fc.text(x.Value)
	}
	fc.replace(x.For, x.X.Pos(), fmt.Sprintf("for %s := __simrt.MapIter(%d, ", it, id))
	var b strings.Builder
	fmt.Fprintf(&b, "); %s.Next(); { ", it)
	op := ":="
	if x.Tok == token.ASSIGN {
		op = "="
	}
	switch {
	case keyTxt != "_" && valTxt != "_":
		fmt.Fprintf(&b, "%s, %s %s %s.K, %s.V; ", keyTxt, valTxt, op, it, it)
	case keyTxt != "_":
		fmt.Fprintf(&b, "%s %s %s.K; ", keyTxt, op, it)
	case valTxt != "_":
		fmt.Fprintf(&b, "%s %s %s.V; ", valTxt, op, it)
	}
	fc.replace(x.X.End(), x.Body.Lbrace+1, b.String())
}

var goInfo *types.Info

// inSelectComm: nodes inside the communication clause of a select statement (left as they are).
var inSelectComm = map[ast.Node]bool{}

// rewriteChanRange:  for v := range ch {   ->   for { v, __ok := __simrt.ChanRecv2(site, ch); if !__ok { break };
func rewriteChanRange(label string, fc *fileCtx, x *ast.RangeStmt, fn string) {
	id := newSite("chan", fc, label, x.Pos(), fn, "range")
	var b strings.Builder
	b.WriteString("for { ")
	switch {
	case x.Key == nil:
		fmt.Fprintf(&b, "_, __ok%d := ", id)
	case x.Tok == token.DEFINE:
		fmt.Fprintf(&b, "%s, __ok%d := ", fc.text(x.Key), id)
	default:
		fmt.Fprintf(&b, "var __ok%d bool; %s, __ok%d = ", id, fc.text(x.Key), id)
	}
	fmt.Fprintf(&b, "__simrt.ChanRecv2(%d, %s); if !__ok%d { break }; ", id, fc.text(x.X), id)
	fc.replace(x.For, x.Body.Lbrace+1, b.String())
}

// recvPointerText renders the expression that points at the sync primitive a selection
// resolves to: `&(x)` for a direct receiver, `&(x).Mutex` through embedded fields.
func recvPointerText(info *types.Info, fc *fileCtx, x ast.Expr, idx []int) (string, bool) {
	txt := fc.text(x)
	t := info.TypeOf(x)
	if len(idx) > 1 {
		for _, i := range idx[:len(idx)-1] {
			if pt, ok := t.Underlying().(*types.Pointer); ok {
				t = pt.Elem()
			}
			st, ok := t.Underlying().(*types.Struct)
			if !ok {
				return "", false
			}
			f := st.Field(i)
			txt = "(" + txt + ")." + f.Name()
			t = f.Type()
		}
		if _, isPtr := t.Underlying().(*types.Pointer); !isPtr {
			txt = "&" + txt
		}
		return txt, true
	}
	if _, isPtr := t.Underlying().(*types.Pointer); !isPtr {
		txt = "&(" + txt + ")"
	}
	return txt, true
}

// allPkgs: every package loaded, dependencies included (by import path).
var allPkgs = map[string]*packages.Package{}
var funcConcMemo = map[*types.Func]int{} // 0 unknown, 1 no, 2 yes, 3 in progress
var funcDecls = map[string]map[*types.Func]*ast.FuncDecl{}

func isStdlib(path string) bool {
	first, _, _ := strings.Cut(path, "/")
	return !strings.Contains(first, ".")
}

func declsOf(path string) map[*types.Func]*ast.FuncDecl {
	if m, ok := funcDecls[path]; ok {
		return m
	}
	m := map[*types.Func]*ast.FuncDecl{}
	if p := allPkgs[path]; p != nil && p.TypesInfo != nil {
		for _, f := range p.Syntax {
			for _, d := range f.Decls {
				if fd, ok := d.(*ast.FuncDecl); ok && fd.Body != nil {
					if o, ok := p.TypesInfo.Defs[fd.Name].(*types.Func); ok {
						m[o] = fd
					}
				}
			}
		}
	}
	funcDecls[path] = m
	return m
}

// foreignConcurrent reports whether a function outside the library can start goroutines,
// touch channels or wait for other goroutines (followed through the calls that resolve
// statically). A call of such a function may run the library's callbacks on goroutines the
// simulator does not start, or block for real (errgroup.Group.Go, singleflight.Group.Do,
// semaphore.Weighted.Acquire, worker pools): a construct the simulator does not own.
func foreignConcurrent(fn *types.Func) bool {
	if fn == nil || fn.Pkg() == nil {
		return false
	}
	fn = fn.Origin()
	path := fn.Pkg().Path()
	if instrPkg[path] || path == "verif.local/simrt" {
		return false
	}
	if isStdlib(path) {
		if path == "sync" && fn.Name() == "Wait" {
			return true // WaitGroup.Wait / Cond.Wait reached inside a dependency: blocks for real
		}
		if path == "time" && (fn.Name() == "Sleep" || fn.Name() == "After" || fn.Name() == "NewTimer" || fn.Name() == "AfterFunc" || fn.Name() == "Tick" || fn.Name() == "NewTicker") {
			return true
		}
		return false
	}
	switch funcConcMemo[fn] {
	case 1, 3:
		return false
	case 2:
		return true
	}
	funcConcMemo[fn] = 3
	res := false
	if fd := declsOf(path)[fn]; fd != nil {
		info := allPkgs[path].TypesInfo
		ast.Inspect(fd.Body, func(n ast.Node) bool {
			if res {
				return false
			}
			switch x := n.(type) {
			case *ast.GoStmt, *ast.ChanType, *ast.SelectStmt, *ast.SendStmt:
				res = true
			case *ast.UnaryExpr:
				if x.Op == token.ARROW {
					res = true
				}
			case *ast.RangeStmt:
				if t := info.TypeOf(x.X); t != nil {
					if _, ok := t.Underlying().(*types.Chan); ok {
						res = true
					}
				}
			case *ast.CallExpr:
				var callee *types.Func
				switch f := x.Fun.(type) {
				case *ast.Ident:
					callee, _ = info.Uses[f].(*types.Func)
				case *ast.SelectorExpr:
					if s := info.Selections[f]; s != nil {
						callee, _ = s.Obj().(*types.Func)
					} else {
						callee, _ = info.Uses[f.Sel].(*types.Func)
					}
				}
				if callee != nil && foreignConcurrent(callee) {
					res = true
				}
			}
			return !res
		})
	}
	funcConcMemo[fn] = 1
	if res {
		funcConcMemo[fn] = 2
	}
	return res
}

func rewriteGo(label string, fc *fileCtx, g *ast.GoStmt, fn string, isListed bool) {
	id := newSite("go", fc, label, g.Pos(), fn, "")
	call := g.Call
	n := len(call.Args)
	where := fmt.Sprintf("%s:%d", fc.rel, fc.tf.Line(g.Pos()))
	// go F(a, b)  ->  { __f, __a0, __a1 := F, a, b; __simrt.Go(id, func() { __f(__a0, __a1) }) }
	// The function value (a method value binds its receiver) and the arguments are evaluated at
	// the statement, as the language requires. No type has to be named: the temporaries take
	// the types of the expressions and are passed on under the ordinary assignability rules
	// (a concrete value for an interface parameter, a slice for a variadic spread). Untyped
	// constants and nil are not captured - they are repeated inside the closure, where they take
	// the parameter's type as they did in the original call. Only text between the callee and
	// the arguments is replaced, so edits inside them stay valid.
	tupleLen := 0
	if n == 1 {
		if tup, ok := goInfo.TypeOf(call.Args[0]).(*types.Tuple); ok && tup.Len() != 1 {
			tupleLen = tup.Len() // go f(g()) with g returning several values: one temporary per value
		}
	}
	if sel, ok := call.Fun.(*ast.SelectorExpr); ok {
		if s := goInfo.Selections[sel]; s != nil && s.Kind() == types.MethodVal {
			if m, ok := s.Obj().(*types.Func); ok && m.Pkg() != nil && m.Pkg().Path() == "sync" {
				// go wg.Wait(), go once.Do(f), go mu.Unlock(): the call itself is rewritten to a shim
				// (handleCall), so the statement only gets a closure around it
				fc.replace(g.Go, call.Pos(), fmt.Sprintf("__simrt.Go(%d, func() { ", id))
				fc.insert(call.End(), " })", 9)
				return
			}
		}
	}
	funTxt := "__f"
	hoistFun := true
	switch f := call.Fun.(type) {
	case *ast.Ident:
		switch goInfo.Uses[f].(type) {
		case *types.Func:
			hoistFun, funTxt = false, fc.text(f) // a declared function (possibly generic: instantiated by the call)
		case *types.Builtin, *types.TypeName:
			fatal = append(fatal, where+": go statement calling a builtin or a conversion")
			return
		}
	case *ast.SelectorExpr:
		if x, ok := f.X.(*ast.Ident); ok {
			if _, isPkg := goInfo.Uses[x].(*types.PkgName); isPkg {
				if _, isFn := goInfo.Uses[f.Sel].(*types.Func); isFn {
					hoistFun, funTxt = false, fc.text(f)
				}
			}
		}
	}
	if n == 0 && hoistFun {
		if sig, ok := goInfo.TypeOf(call.Fun).Underlying().(*types.Signature); ok && sig.Results().Len() == 0 {
			// go F()  ->  __simrt.Go(id, F)
			fc.replace(g.Go, call.Fun.Pos(), fmt.Sprintf("__simrt.Go(%d, ", id))
			fc.replace(call.Lparen, call.Rparen+1, ")")
			return
		}
	}
	var lhs, inner []string
	var consts []ast.Expr
	if hoistFun {
		lhs = append(lhs, "__f")
	}
	for i, a := range call.Args {
		if tupleLen > 0 {
			for j := 0; j < tupleLen; j++ {
				lhs = append(lhs, fmt.Sprintf("__a%d", j))
				inner = append(inner, fmt.Sprintf("__a%d", j))
			}
			break
		}
		tv := goInfo.Types[a]
		if tv.IsNil() || tv.Value != nil {
			lhs = append(lhs, "_")
			inner = append(inner, fc.text(a))
			consts = append(consts, a)
			continue
		}
		lhs = append(lhs, fmt.Sprintf("__a%d", i))
		inner = append(inner, fmt.Sprintf("__a%d", i))
		// an untyped non-constant expression (1<<n, a comparison) would give its temporary the
		// default type instead of the parameter's: the recorded type is spelled out when it is a
		// predeclared one (no import needed to name it)
		if b, ok := tv.Type.(*types.Basic); ok && b.Info()&types.IsUntyped == 0 && b.Kind() != types.UnsafePointer && b.Kind() != types.Invalid {
			fc.insert(a.Pos(), b.Name()+"(", 0)
			fc.insert(a.End(), ")", 9)
		}
	}
	spread := ""
	if call.Ellipsis.IsValid() {
		spread = "..."
	}
	tail := fmt.Sprintf("__simrt.Go(%d, func() { %s(%s%s) }) }", id, funTxt, strings.Join(inner, ", "), spread)
	allBlank := true
	for _, l := range lhs {
		if l != "_" {
			allBlank = false
		}
	}
	if allBlank {
		// a declared function called with constants only (or nothing): nothing to evaluate at the statement
		fc.replace(g.Go, call.Rparen+1, "{ "+tail)
		return
	}
	for _, a := range consts {
		fc.replace(a.Pos(), a.End(), "0") // placeholder assigned to the blank identifier
	}
	head := "{ " + strings.Join(lhs, ", ") + " := "
	if tupleLen > 0 {
		// the values of a multi-value call cannot share an assignment with the callee
		args := strings.Join(inner, ", ") + " := "
		if hoistFun {
			fc.replace(g.Go, call.Fun.Pos(), "{ __f := ")
			fc.replace(call.Fun.End(), call.Args[0].Pos(), "; "+args)
		} else {
			fc.replace(g.Go, call.Args[0].Pos(), "{ "+args)
		}
		fc.replace(call.Args[0].End(), call.Rparen+1, "; "+tail)
		return
	}
	if hoistFun {
		fc.replace(g.Go, call.Fun.Pos(), head)
		if n > 0 {
			fc.replace(call.Fun.End(), call.Args[0].Pos(), ", ")
		} else {
			fc.replace(call.Fun.End(), call.Rparen, "")
		}
	} else {
		// the callee is not evaluated at the statement: drop its text, keep the arguments
		fc.replace(g.Go, call.Args[0].Pos(), head)
	}
	closeFrom := call.Rparen
	if n > 0 {
		closeFrom = call.Args[n-1].End() // also swallows a trailing comma and the spread dots
	}
	fc.replace(closeFrom, call.Rparen+1, "; "+tail)
}

// isCallbackMethod: a method whose name and shape are those of a standard callback interface.
func isCallbackMethod(info *types.Info, fd *ast.FuncDecl) bool {
	if fd.Recv == nil {
		return false
	}
	fn, ok := info.Defs[fd.Name].(*types.Func)
	if !ok {
		return false
	}
	sig := fn.Type().(*types.Signature)
	np, nr := sig.Params().Len(), sig.Results().Len()
	isBytes := func(t types.Type) bool {
		sl, ok := t.Underlying().(*types.Slice)
		if !ok {
			return false
		}
		b, ok := sl.Elem().Underlying().(*types.Basic)
		return ok && b.Kind() == types.Byte
	}
	switch fd.Name.Name {
	case "Write", "Read":
		return np == 1 && nr == 2 && isBytes(sig.Params().At(0).Type())
	case "String", "Error", "GoString":
		return np == 0 && nr == 1
	case "Len":
		return np == 0 && nr == 1
	case "Less":
		return np == 2 && nr == 1
	case "Swap":
		return np == 2 && nr == 0
	case "Close", "Sync", "Flush":
		return np == 0 && nr <= 1
	case "Format":
		return np == 2 && nr == 0
	case "MarshalJSON", "MarshalText", "MarshalBinary":
		return np == 0 && nr == 2
	case "UnmarshalJSON", "UnmarshalText", "UnmarshalBinary":
		return np == 1 && nr == 1
	}
	return false
}

func signatureHasChan(sig *types.Signature) bool {
	has := false
	var walk func(t types.Type, depth int)
	walk = func(t types.Type, depth int) {
		if has || depth > 4 || t == nil {
			return
		}
		switch u := t.Underlying().(type) {
		case *types.Chan:
			has = true
		case *types.Pointer:
			walk(u.Elem(), depth+1)
		case *types.Slice:
			walk(u.Elem(), depth+1)
		case *types.Array:
			walk(u.Elem(), depth+1)
		case *types.Struct:
			for i := 0; i < u.NumFields(); i++ {
				walk(u.Field(i).Type(), depth+1)
			}
		}
	}
	for i := 0; i < sig.Params().Len(); i++ {
		walk(sig.Params().At(i).Type(), 0)
	}
	for i := 0; i < sig.Results().Len(); i++ {
		walk(sig.Results().At(i).Type(), 0)
	}
	return has
}

// isSyncMarkCall reports whether a call is one of the synchronisation operations that are
// marked rather than shimmed (sync/atomic functions and methods, sync.Pool, sync.Map).
func isSyncMarkCall(info *types.Info, c *ast.CallExpr) bool {
	sel, ok := c.Fun.(*ast.SelectorExpr)
	if !ok {
		return false
	}
	if id, ok := sel.X.(*ast.Ident); ok {
		if pn, ok := info.Uses[id].(*types.PkgName); ok {
			return pn.Imported().Path() == "sync/atomic"
		}
	}
	s := info.Selections[sel]
	if s == nil || s.Kind() != types.MethodVal {
		return false
	}
	m, ok := s.Obj().(*types.Func)
	if !ok || m.Pkg() == nil {
		return false
	}
	if m.Pkg().Path() == "sync/atomic" {
		return true
	}
	if m.Pkg().Path() == "sync" {
		rs := strings.TrimPrefix(m.Type().(*types.Signature).Recv().Type().String(), "*")
		return rs == "sync.Pool" || rs == "sync.Map"
	}
	return false
}

// hostHasSyncMark: the statement contains such a call (outside nested function literals).
func hostHasSyncMark(info *types.Info, host ast.Stmt, cache map[ast.Stmt]bool) bool {
	if v, ok := cache[host]; ok {
		return v
	}
	found := false
	ast.Inspect(host, func(n ast.Node) bool {
		if found {
			return false
		}
		switch x := n.(type) {
		case *ast.FuncLit:
			return false
		case *ast.BlockStmt:
			if n != ast.Node(host) {
				return false // nested statement lists have hosts of their own
			}
		case *ast.CallExpr:
			if isSyncMarkCall(info, x) {
				found = true
			}
		}
		return true
	})
	cache[host] = found
	return found
}

// handleCall rewrites calls of sync primitives to the shims and marks other
// synchronisation / nondeterminism sources.
func handleCall(label string, p *packages.Package, fc *fileCtx, c *ast.CallExpr, fn string, hostStmt func() ast.Stmt, syncDone map[ast.Stmt]bool) {
	info := p.TypesInfo
	if id, ok := c.Fun.(*ast.Ident); ok && len(c.Args) == 1 {
		if b, ok := info.Uses[id].(*types.Builtin); ok && b.Name() == "close" {
			// close(ch)  ->  __simrt.ChanClose(site, ch)
			sid := newSite("chan", fc, label, c.Pos(), fn, "close")
			fc.replace(c.Pos(), c.Lparen+1, fmt.Sprintf("__simrt.ChanClose(%d, ", sid))
			return
		}
	}
	// a channel that crosses the library boundary (handed to, or obtained from, code outside the
	// library: time.After, context.Done, signal.Notify, a dependency's API) has a partner the
	// simulator does not own
	if sig, ok := info.TypeOf(c.Fun).(*types.Signature); ok {
		var callee *types.Func
		switch f := c.Fun.(type) {
		case *ast.Ident:
			callee, _ = info.Uses[f].(*types.Func)
		case *ast.SelectorExpr:
			if s := info.Selections[f]; s != nil {
				callee, _ = s.Obj().(*types.Func)
			} else {
				callee, _ = info.Uses[f.Sel].(*types.Func)
			}
		}
		if callee != nil && callee.Pkg() != nil && !instrPkg[callee.Pkg().Path()] && callee.Pkg().Path() != "verif.local/simrt" && signatureHasChan(sig) {
			pos := p.Fset.Position(c.Pos())
			inv.Unsim = append(inv.Unsim, Audit{"channel crosses the library boundary: " + callee.FullName(), label + "/" + fc.rel, pos.Line})
		}
	}
	sel, ok := c.Fun.(*ast.SelectorExpr)
	if !ok {
		return
	}
	pos := p.Fset.Position(c.Pos())
	audit := func(list *[]Audit, what string) {
		*list = append(*list, Audit{what, label + "/" + fc.rel, pos.Line})
	}
	markSync := func(what string) {
		host := hostStmt()
		if host == nil || syncDone[host] {
			return
		}
		syncDone[host] = true
		sid := newSite("sync", fc, label, c.Pos(), fn, what)
		fc.insert(host.Pos(), fmt.Sprintf("__simrt.SyncOp(%d); ", sid), 2)
	}
	// package-qualified function?
	if id, ok := sel.X.(*ast.Ident); ok {
		if pn, ok := info.Uses[id].(*types.PkgName); ok {
			path := pn.Imported().Path()
			name := sel.Sel.Name
			if fo, _ := info.Uses[sel.Sel].(*types.Func); !isStdlib(path) && foreignConcurrent(fo) {
				audit(&inv.Unsim, "call into "+path+"."+name+" (a dependency that starts goroutines or uses channels)")
			}
			switch {
			case path == "sync" && (name == "OnceFunc" || name == "OnceValue" || name == "OnceValues"):
				sid := newSite("sync", fc, label, c.Pos(), fn, "sync."+name)
				fc.replace(c.Pos(), c.Lparen+1, fmt.Sprintf("__simrt.%s(%d, ", name, sid))
				fc.keepImport = id.Name // the file may now have no other use of the package
			case path == "sync/atomic":
				markSync("atomic." + name)
			case path == "math/rand" || path == "math/rand/v2" || path == "crypto/rand":
				audit(&inv.Unowned, path+"."+name)
			case path == "time" && (name == "Now" || name == "Since" || name == "Until"):
				audit(&inv.Unowned, "time."+name)
			case path == "time" && (name == "Sleep" || name == "After" || name == "Tick" || name == "NewTimer" || name == "NewTicker" || name == "AfterFunc"):
				audit(&inv.Unsim, "time."+name)
			case path == "os" && (name == "Getenv" || name == "LookupEnv" || name == "Getpid" || name == "Hostname" || name == "Environ"):
				audit(&inv.Unowned, "os."+name)
			case path == "maps" && (name == "Keys" || name == "Values" || name == "All"):
				audit(&inv.Unowned, "maps."+name)
			case path == "runtime" && (name == "NumGoroutine" || name == "NumCPU" || name == "GOMAXPROCS"):
				audit(&inv.Unowned, "runtime."+name)
			}
			return
		}
	}
	// method call
	s := info.Selections[sel]
	if s == nil || s.Kind() != types.MethodVal {
		return
	}
	// a lock method called through an interface other than sync.Locker (a library-defined
	// `interface{ RLock(); RUnlock() }` holding a *sync.RWMutex, or a struct that embeds one):
	// which primitive it is shows only at run time
	if _, isIface := info.TypeOf(sel.X).Underlying().(*types.Interface); isIface && len(c.Args) == 0 {
		switch sel.Sel.Name {
		case "Lock", "Unlock", "RLock", "RUnlock":
			if mf, ok := s.Obj().(*types.Func); ok && !(mf.Pkg() != nil && mf.Pkg().Path() == "sync") {
				sid := newSite("sync", fc, label, c.Pos(), fn, "interface."+sel.Sel.Name)
				fc.insert(c.Pos(), fmt.Sprintf("__simrt.DynLock(%d, ", sid), 8) // after the hooks placed before the statement
				fc.replace(sel.X.End(), c.Rparen+1, fmt.Sprintf(", %q)", sel.Sel.Name))
				ast.Inspect(sel.X, func(n ast.Node) bool {
					if id, ok := n.(*ast.Ident); ok {
						syncRecvIdent[id] = true
					}
					return true
				})
				return
			}
		}
	}
	m, ok := s.Obj().(*types.Func)
	if !ok || m.Pkg() == nil {
		return
	}
	recvT := m.Type().(*types.Signature).Recv().Type()
	rs := recvT.String()
	rs = strings.TrimPrefix(rs, "*")
	name := m.Name()
	pkg := m.Pkg().Path()
	if !isStdlib(pkg) && foreignConcurrent(m) {
		audit(&inv.Unsim, "call into "+pkg+"."+rs+"."+name+" (a dependency that starts goroutines or uses channels)")
	}
	shim := ""
	isLocker := false
	switch pkg {
	case "sync":
		switch rs {
		case "sync.Mutex":
			shim = map[string]string{"Lock": "MutexLock", "Unlock": "MutexUnlock", "TryLock": "MutexTryLock"}[name]
		case "sync.RWMutex":
			shim = map[string]string{"Lock": "RWLock", "Unlock": "RWUnlock", "RLock": "RWRLock", "RUnlock": "RWRUnlock", "TryLock": "RWTryLock", "TryRLock": "RWTryRLock"}[name]
			if shim == "" && name != "RLocker" { // RLocker only makes a Locker; its methods go through the dynamic shim
				audit(&inv.Unsim, "sync.RWMutex."+name)
			}
		case "sync.Once":
			shim = map[string]string{"Do": "OnceDo"}[name]
		case "sync.WaitGroup":
			shim = map[string]string{"Add": "WGAdd", "Done": "WGDone", "Wait": "WGWait"}[name]
		case "sync.Locker":
			shim = map[string]string{"Lock": "LockerLock", "Unlock": "LockerUnlock"}[name]
			isLocker = true
		case "sync.Cond":
			audit(&inv.Unsim, "sync.Cond."+name)
		case "sync.Pool":
			markSync("sync.Pool." + name)
		case "sync.Map":
			markSync("sync.Map." + name)
			if name == "Range" {
				audit(&inv.Unowned, "sync.Map.Range")
			}
		}
	case "sync/atomic":
		markSync("atomic." + rs + "." + name)
	case "reflect":
		if name == "MapKeys" || name == "MapRange" {
			audit(&inv.Unowned, "reflect."+name)
		}
	case "context":
		if name == "Done" {
			audit(&inv.Unsim, "context.Done")
		}
	}
	if shim == "" {
		return
	}
	// receiver expression -> pointer expression
	recvTxt := fc.text(sel.X)
	if isLocker {
		// an interface value: passed as it is, the shim looks at its dynamic type
		sid := newSite("sync", fc, label, c.Pos(), fn, rs+"."+name)
		fc.replace(c.Pos(), c.Lparen+1, fmt.Sprintf("__simrt.%s(%d, %s", shim, sid, recvTxt))
		return
	}
	// implicit field path (embedded mutex): s.Lock() with s struct{ sync.Mutex }
	if idx := s.Index(); len(idx) > 1 {
		t := info.TypeOf(sel.X)
		for _, i := range idx[:len(idx)-1] {
			if pt, ok := t.Underlying().(*types.Pointer); ok {
				t = pt.Elem()
			}
			st, ok := t.Underlying().(*types.Struct)
			if !ok {
				fatal = append(fatal, fmt.Sprintf("%s:%d: embedded sync primitive through non-struct", fc.rel, pos.Line))
				return
			}
			f := st.Field(i)
			recvTxt = "(" + recvTxt + ")." + f.Name()
			t = f.Type()
		}
		if _, isPtr := t.Underlying().(*types.Pointer); !isPtr {
			recvTxt = "&" + recvTxt
		}
	} else {
		t := info.TypeOf(sel.X)
		if _, isPtr := t.Underlying().(*types.Pointer); !isPtr {
			recvTxt = "&(" + recvTxt + ")"
		}
	}
	// the receiver expression only names the primitive: mentioning a package variable there
	// (a mutex stored inside the variable it protects) is not an access to the protected data
	ast.Inspect(sel.X, func(n ast.Node) bool {
		if id, ok := n.(*ast.Ident); ok {
			syncRecvIdent[id] = true
		}
		return true
	})
	sid := newSite("sync", fc, label, c.Pos(), fn, rs+"."+name)
	sep := ""
	if len(c.Args) > 0 {
		sep = ", "
	}
	// only the callee part is replaced; the arguments stay where they are (they may carry edits of their own)
	fc.replace(c.Pos(), c.Lparen+1, fmt.Sprintf("__simrt.%s(%d, %s%s", shim, sid, recvTxt, sep))
}
