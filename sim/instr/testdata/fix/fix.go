// Package fix is the instrumenter's self-test fixture: every construct the rewriter has a
// rule for, in the awkward positions.
package fix

import (
	"log"
	"math"
	"sort"
	"strings"
	"sync"
	"sync/atomic"
)

type Set map[string]struct{}

type key struct{ a, b int }

var (
	counter  int
	cache    = map[string]int{}
	table    []int
	once     sync.Once
	mu       sync.Mutex
	rw       sync.RWMutex
	hits     int64
	registry = map[key]string{}
)

type guarded struct {
	sync.Mutex
	n int
}

type holder struct {
	g  *guarded
	mu sync.RWMutex
	m  map[int]int
}

// Keys returns the keys in iteration order (so a test can see which order was used).
func Keys(m map[string]int) []string {
	var out []string
	for k := range m {
		out = append(out, k)
	}
	return out
}

func Values(m map[string]int) []int {
	var out []int
	for _, v := range m {
		out = append(out, v)
	}
	return out
}

func Pairs(m map[string]int) (ks []string, vs []int) {
	var k string
	var v int
	for k, v = range m { // assignment form
		ks = append(ks, k)
		vs = append(vs, v)
	}
	return
}

func Count(m Set) int {
	n := 0
	for range m {
		n++
	}
	return n
}

func GenericKeys[K comparable, V any](m map[K]V) []K {
	out := make([]K, 0, len(m))
	for k := range m {
		out = append(out, k)
	}
	return out
}

func StructKeys() []int {
	m := map[key]bool{{1, 2}: true, {0, 9}: true, {1, 1}: false}
	var out []int
	for k, v := range m {
		if !v {
			continue
		}
		out = append(out, k.a*10+k.b)
	}
	return out
}

func Nested(m map[string]map[string]int) int {
	sum := 0
outer:
	for k, inner := range m {
		for k2, v := range inner {
			if k2 == "stop" {
				continue outer
			}
			if k == "skip" {
				break
			}
			sum += v
		}
	}
	return sum
}

func DeleteDuring(m map[int]int) int {
	// entries deleted during iteration must not be produced afterwards
	seen := 0
	for k := range m {
		seen++
		for j := range m {
			if j != k {
				delete(m, j)
			}
		}
	}
	return seen
}

func makeMap() map[string]int { return map[string]int{"x": 1, "y": 2} }

func CallOperand() int {
	s := 0
	for _, v := range makeMap() { // operand with a call: must be evaluated once
		s += v
	}
	return s
}

func InClosure(m map[string]int) func() []string {
	return func() []string {
		var out []string
		for k := range m {
			out = append(out, k)
		}
		sort.Strings(out)
		return out
	}
}

func SwitchCase(x int, m map[string]int) int {
	switch x {
	case 1:
		for _, v := range m {
			x += v
		}
	default:
		if x > 5 {
			x = counter
		} else if counter > 3 {
			x = -1
		}
	}
	return x
}

// ---- package state ----

func Bump() int {
	counter++
	counter += 2
	return counter
}

func Cached(k string) int {
	if v, ok := cache[k]; ok {
		return v
	}
	cache[k] = len(k)
	return cache[k]
}

func Forget(k string) { delete(cache, k) }

func Table() []int {
	once.Do(func() {
		for i := 0; i < 4; i++ {
			table = append(table, i*i)
		}
	})
	return table
}

func Register(a, b int, s string) {
	rw.Lock()
	defer rw.Unlock()
	registry[key{a, b}] = s
}

var safeCounter int

func BumpSafe() int {
	mu.Lock()
	defer mu.Unlock()
	safeCounter++
	return safeCounter
}

func Lookup(a, b int) string {
	rw.RLock()
	s := registry[key{a, b}]
	rw.RUnlock()
	rw.Lock()
	rw.Unlock()
	return s
}

func Hit() int64 { return atomic.AddInt64(&hits, 1) }

func (g *guarded) Inc() int {
	g.Lock()
	defer g.Unlock()
	g.n++
	return g.n
}

func (h *holder) Get(k int) int {
	h.mu.RLock()
	defer h.mu.RUnlock()
	h.g.Lock()
	h.g.n++
	h.g.Unlock()
	return h.m[k]
}

func NewHolder() *holder   { return &holder{g: &guarded{}, m: map[int]int{1: 10}} }
func NewGuarded() *guarded { return &guarded{} }

// ---- goroutines ----

func FanOut(xs []int) int {
	var wg sync.WaitGroup
	var m sync.Mutex
	sum := 0
	for _, x := range xs {
		wg.Add(1)
		go func(v int) {
			defer wg.Done()
			m.Lock()
			sum += v
			m.Unlock()
		}(x)
	}
	wg.Wait()
	return sum
}

func add(dst *int64, v int64, wg *sync.WaitGroup) {
	atomic.AddInt64(dst, v)
	wg.Done()
}

func FanOutNamed(xs []int64) int64 {
	var wg sync.WaitGroup
	var tot int64
	for _, x := range xs {
		wg.Add(1)
		go add(&tot, x, &wg)
	}
	wg.Add(1)
	go func() {
		defer wg.Done()
		atomic.AddInt64(&tot, 100)
	}()
	wg.Wait()
	return tot
}

// ---- constructs added after a review of the rewriter ----

var MinZ, MaxZ = 0, 35

func InRange(z int) string {
	switch {
	case z < MinZ, z > MaxZ: // package variables in a case expression
		return "out"
	default:
		return "in"
	}
}

func scale(wg *sync.WaitGroup, out []float64, i int, f float64, k int64, p *int) {
	defer wg.Done()
	out[i] = f * float64(k)
	_ = p
}

func TypedGoArgs() []float64 {
	out := make([]float64, 2)
	var wg sync.WaitGroup
	wg.Add(2)
	go scale(&wg, out, 0, 0.5, 3, nil) // untyped constants and nil as go arguments
	go scale(&wg, out, 1, 2, 4, nil)
	wg.Wait()
	return out
}

func LabeledComplex(m map[string]map[string]int) int {
	s := 0
outer:
	for k := range m["a"] { // labeled range over a non-trivial operand
		for range m {
			if k == "skip" {
				continue outer
			}
			s++
		}
	}
	return s
}

func keysOf[M ~map[K]V, K comparable, V any](m M) []K {
	out := make([]K, 0, len(m))
	for k := range m { // operand is a type parameter
		out = append(out, k)
	}
	return out
}

func GenericConstraintKeys() []string { return keysOf(map[string]int{"a": 1, "b": 2, "c": 3}) }

var lazyTable []int
var initLazy = sync.OnceFunc(func() { lazyTable = []int{1, 2, 3} })
var lazyVal = sync.OnceValue(func() int { return 42 })

func Lazy() int { initLazy(); return len(lazyTable) + lazyVal() }

var guardedCache = struct {
	sync.Mutex // the mutex lives inside the variable it protects
	m          map[string]int
}{m: map[string]int{}}

func GuardedGet(k string) int {
	guardedCache.Lock()
	defer guardedCache.Unlock()
	v, ok := guardedCache.m[k]
	if !ok {
		v = len(k)
		guardedCache.m[k] = v
	}
	return v
}

type memo struct {
	mu sync.Mutex
	m  map[string]int
}

func (c *memo) get(k string) int {
	c.mu.Lock()
	defer c.mu.Unlock()
	v, ok := c.m[k]
	if !ok {
		v = len(k)
		c.m[k] = v
	}
	return v
}

var memoCache = &memo{m: map[string]int{}}

func MemoGet(k string) int { return memoCache.get(k) }

type shard struct {
	mu sync.Mutex
	m  map[string]int
}

var shards [4]shard

func ShardGet(k string) int {
	i := len(k) % len(shards)
	shards[i].mu.Lock()
	defer shards[i].mu.Unlock()
	if shards[i].m == nil {
		shards[i].m = map[string]int{}
	}
	v, ok := shards[i].m[k]
	if !ok {
		v = len(k)
		shards[i].m[k] = v
	}
	return v
}

func FieldsPerGoroutine() (int, int) {
	var parts struct{ h, v []int }
	var wg sync.WaitGroup
	wg.Add(2)
	go func() { defer wg.Done(); parts.h = []int{1} }()
	go func() { defer wg.Done(); parts.v = []int{1, 2} }()
	wg.Wait()
	return len(parts.h), len(parts.v)
}

func ImpureIndex() int {
	out := make([]int, 4)
	var next int64 = -1
	var wg sync.WaitGroup
	for i := 0; i < 4; i++ {
		wg.Add(1)
		go func(v int) { defer wg.Done(); out[atomic.AddInt64(&next, 1)] = v + 1 }(i)
	}
	wg.Wait()
	s := 0
	for _, x := range out {
		s += x
	}
	return s
}

type worker struct{ n int }

func (w *worker) run(wg *sync.WaitGroup) { defer wg.Done(); w.n++ }

func MethodValueGo() int {
	w := &worker{}
	var wg sync.WaitGroup
	wg.Add(1)
	go w.run(&wg)
	w = &worker{n: 100} // the receiver of the go statement was evaluated before this
	wg.Wait()
	return w.n
}

var replacer = strings.NewReplacer("a", "b") // builds itself lazily under its own sync.Once

func Replace(s string) string { return replacer.Replace(s) }

var limits []int

func GuardedIndex(i int) int {
	if i < len(limits) && limits[i] > 0 { // the hook before this statement must not index out of range
		return limits[i]
	}
	return -1
}

// ---- second review round ----

var lockerGuard sync.Locker = &sync.Mutex{}
var lockerMap = map[string]int{}

func LockerGet(k string) int {
	lockerGuard.Lock() // a lock taken through the sync.Locker interface
	defer lockerGuard.Unlock()
	v, ok := lockerMap[k]
	if !ok {
		v = len(k)
		lockerMap[k] = v
	}
	return v
}

var mvMu sync.Mutex
var mvCount int

func MethodValueUnlock() int {
	mvMu.Lock()
	unlock := mvMu.Unlock // method value of a sync primitive
	defer unlock()
	mvCount++
	return mvCount
}

func fill(wg *sync.WaitGroup, out []int, i int) bool {
	defer wg.Done()
	out[i] = i + 1
	return true
}

func GoWithResult() int {
	out := make([]int, 3)
	var wg sync.WaitGroup
	for i := range out {
		wg.Add(1)
		go fill(&wg, out, i) // the callee returns a value
	}
	wg.Wait()
	return out[0] + out[1] + out[2]
}

type entry struct {
	once sync.Once
	r    int
}

var entries = struct {
	mu sync.Mutex
	m  map[string]*entry
}{m: map[string]*entry{}}

func EntryOnce(k string) int {
	entries.mu.Lock()
	e := entries.m[k]
	if e == nil {
		e = &entry{}
		entries.m[k] = e
	}
	entries.mu.Unlock()
	e.once.Do(func() { e.r = len(k) * 2 }) // computed outside the table lock
	return e.r
}

// ---- third review round ----

type sink interface{ put(int) }
type sumSink struct {
	mu sync.Mutex
	n  int
}

func (s *sumSink) put(v int) { s.mu.Lock(); s.n += v; s.mu.Unlock() }

func feed(wg *sync.WaitGroup, s sink, scalef float64, vs ...int) {
	defer wg.Done()
	for _, v := range vs {
		s.put(int(float64(v) * scalef))
	}
}

// GoIfaceVariadic: go statements passing a concrete value for an interface parameter, an
// untyped constant for a float parameter, a variadic tail and a variadic spread.
func GoIfaceVariadic() int {
	s := &sumSink{}
	var wg sync.WaitGroup
	wg.Add(3)
	go feed(&wg, s, 2, 1, 2, 3)
	xs := []int{4, 5}
	go feed(&wg, s, 1, xs...)
	go feed(&wg, s, 1)
	wg.Wait()
	return s.n
}

type cell struct {
	mu sync.Mutex
	m  map[string]int
}

var grid [2][3]cell

var nestedShards struct {
	name   string
	shards [4]cell
}

// GridGet: memo spread over a two-dimensional array of cells and over an array wrapped in a
// struct, each cell under its own mutex.
func GridGet(k string) int {
	c := &grid[len(k)%2][len(k)%3]
	c.mu.Lock()
	if c.m == nil {
		c.m = map[string]int{}
	}
	c.m[k] = len(k)
	v := c.m[k]
	c.mu.Unlock()
	n := &nestedShards.shards[len(k)%4]
	n.mu.Lock()
	if n.m == nil {
		n.m = map[string]int{}
	}
	n.m[k] = v
	v = n.m[k]
	n.mu.Unlock()
	return v
}

type onceEntry struct {
	once sync.Once
	v    int
}

var onceTable = map[int]*onceEntry{1: {}, 2: {}, 3: {}}

// OnceTableGet: entries of a table built at init, each filled lazily under its own Once.
func OnceTableGet(k int) int {
	e := onceTable[k]
	e.once.Do(func() { e.v = k * 10 })
	return e.v
}

// ---- fourth review round ----

func scaleInto(wg *sync.WaitGroup, out []int64, i int, f int64, on bool) {
	defer wg.Done()
	if on {
		out[i] = f
	}
}

type lockedBox struct {
	sync.Mutex
	n int
}

func (b *lockedBox) hold() func() { b.Lock(); return b.Unlock }

var theBox lockedBox
var prefetch sync.Once
var prefetched int

// Round4: untyped shift / comparison arguments of a go statement, `go once.Do(f)` and
// `go wg.Wait()`, a promoted method value of an embedded mutex, a read lock released by
// another goroutine than the one that took it.
func Round4(d uint) int64 {
	var wg sync.WaitGroup
	out := make([]int64, 2)
	wg.Add(2)
	go scaleInto(&wg, out, 0, 1<<d, d > 0)
	go scaleInto(&wg, out, 1, 3, 1 < 2)
	wg.Wait()
	go prefetch.Do(func() { prefetched = 7 })
	prefetch.Do(func() { prefetched = 7 })
	release := theBox.hold()
	theBox.n++
	release()
	var rw sync.RWMutex
	var done sync.WaitGroup
	rw.RLock()
	done.Add(1)
	go func() { defer done.Done(); rw.RUnlock() }()
	done.Wait()
	rw.Lock()
	out[1] += int64(prefetched)
	rw.Unlock()
	var idle sync.WaitGroup
	go idle.Wait()
	return out[0] + out[1]
}

type rwLocker interface {
	RLock()
	RUnlock()
	Lock()
	Unlock()
}

var ifaceGuard rwLocker = &sync.RWMutex{}
var ifaceMemo = map[string]int{}

type boxedMap struct {
	sync.Mutex
	m map[string]int
}

var boxed = &boxedMap{m: map[string]int{}}
var rlockGuard sync.RWMutex
var rlockMemo = map[string]int{"x": 1}

func withLocker(l sync.Locker, f func()) { l.Lock(); defer l.Unlock(); f() }

// IfaceLocks: a lock behind a library-defined interface, a struct that embeds a mutex used
// as a sync.Locker (and directly elsewhere), the RLocker of an RWMutex.
func IfaceLocks(k string) int {
	ifaceGuard.RLock()
	v, ok := ifaceMemo[k]
	ifaceGuard.RUnlock()
	if !ok {
		ifaceGuard.Lock()
		ifaceMemo[k] = len(k)
		v = ifaceMemo[k]
		ifaceGuard.Unlock()
	}
	withLocker(boxed, func() { boxed.m[k] = v })
	boxed.Lock()
	v = boxed.m[k]
	boxed.Unlock()
	withLocker(rlockGuard.RLocker(), func() { v += rlockMemo["x"] - 1 })
	rlockGuard.Lock()
	rlockMemo["x"] = 1
	rlockGuard.Unlock()
	return v
}

// ---- channels (simulated when the library makes and uses them itself, without select) ----

type squareJob struct {
	i, v int
}

// ChanPool: unbuffered job channel, buffered semaphore, results channel, close + range, a
// done channel closed to release a waiter, receive with ok.
func ChanPool(xs []int) int {
	jobs := make(chan squareJob)
	results := make(chan squareJob, len(xs))
	sem := make(chan struct{}, 2)
	done := make(chan struct{})
	var wg sync.WaitGroup
	for w := 0; w < 3; w++ {
		wg.Add(1)
		go func() {
			defer wg.Done()
			for j := range jobs {
				sem <- struct{}{}
				results <- squareJob{j.i, j.v * j.v}
				<-sem
			}
			<-done
		}()
	}
	go func() {
		for i, v := range xs {
			jobs <- squareJob{i, v}
		}
		close(jobs)
	}()
	out := make([]int, len(xs))
	for range xs {
		r := <-results
		out[r.i] = r.v
	}
	close(done)
	wg.Wait()
	if _, ok := <-jobs; ok {
		panic("closed channel delivered a value")
	}
	sum := 0
	for _, v := range out {
		sum += v
	}
	return sum
}

// ---- fifth review round ----

func pick(m map[string]int, keep func(string) bool) map[string]int {
	out := map[string]int{}
	for k, v := range m {
		if keep(k) {
			out[k] = v
		}
	}
	return out
}

// Round5Ranges: a map range whose operand holds a closure with a loop; goto to a labeled
// map range whose operand is a call (from after and from inside the loop); NaN keys; a
// labeled range over a variable that the body reassigns.
func Round5Ranges() int {
	m := map[string]int{"a": 1, "bb": 2, "ccc": 3, "dddd": 4}
	total := 0
	for _, v := range pick(m, func(k string) bool {
		n := 0
		for range k {
			n++
		}
		return n%2 == 0
	}) {
		total += v // 2 + 4
	}
	pending := map[int]bool{1: true, 2: true, 3: true}
	remaining := func() map[int]bool { return pending }
	rounds := 0
again:
	for k := range remaining() {
		delete(pending, k)
		rounds++
		if rounds == 1 {
			goto again // re-evaluates the operand
		}
	}
	if len(pending) > 0 {
		goto again
	}
	total += rounds * 10 // 3 rounds
	nan := map[float64]int{math.NaN(): 5, math.NaN(): 6, 1.5: 7}
	for _, v := range nan {
		total += v // 18
	}
	cur := map[string]int{"x": 1, "y": 2}
outer:
	for k := range cur {
		if k == "x" || k == "y" {
			cur = map[string]int{"z": 100}
			total += 1000
			continue outer
		}
	}
	return total // 6 + 30 + 18 + 2000
}

type ringLog struct{ lines []string }

// Write is called by log.Logger under the logger's own mutex.
func (r *ringLog) Write(p []byte) (int, error) {
	for i := 0; i < 1; i++ {
		r.lines = append(r.lines, string(p))
	}
	if len(r.lines) > 8 {
		r.lines = r.lines[len(r.lines)-8:]
	}
	return len(p), nil
}

var ring = &ringLog{}
var diagLog = log.New(ring, "", 0)

var exprGuard sync.RWMutex
var exprMemo = map[string]int{}

func twoValues() (int, int) { return 4, 5 }

// Round5Sync: locks taken through method expressions and through a method value of an
// interface; a go statement whose arguments are the results of a multi-value call; a
// callback of the library running under a lock of the standard library (log.Logger).
func Round5Sync(k string) int {
	rlock, runlock := (*sync.RWMutex).RLock, (*sync.RWMutex).RUnlock
	rlock(&exprGuard)
	v, ok := exprMemo[k]
	runlock(&exprGuard)
	if !ok {
		(*sync.RWMutex).Lock(&exprGuard)
		exprMemo[k] = len(k)
		v = exprMemo[k]
		(*sync.RWMutex).Unlock(&exprGuard)
	}
	var l sync.Locker = &exprGuard
	l.Lock()
	unlock := l.Unlock
	exprMemo[k] = v
	unlock()
	var wg sync.WaitGroup
	out := make([]int, 2)
	wg.Add(1)
	store := func(a, b int) { defer wg.Done(); out[0], out[1] = a, b }
	go store(twoValues())
	wg.Wait()
	diagLog.Printf("memo %s", k)
	return v + out[0] + out[1]
}
