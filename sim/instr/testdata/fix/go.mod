module fixmod

go 1.22
