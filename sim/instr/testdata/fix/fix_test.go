package fix

import (
	"sort"
	"testing"
)

func sorted(s []string) []string { sort.Strings(s); return s }

func TestAll(t *testing.T) {
	if Round5Ranges() != 2054 || Round5Sync("abc") != 12 {
		t.Fatal("fifth review constructs")
	}
	if Round4(3) != 18 || IfaceLocks("abc") != 3 || ChanPool([]int{1, 2, 3, 4}) != 30 {
		t.Fatal("fourth review constructs")
	}
	if GoIfaceVariadic() != 21 || GridGet("abc") != 3 || OnceTableGet(2) != 20 {
		t.Fatal("third review constructs")
	}
	m := map[string]int{"a": 1, "b": 2, "c": 3, "d": 4}
	if k := sorted(Keys(m)); len(k) != 4 || k[0] != "a" || k[3] != "d" {
		t.Fatal(k)
	}
	v := Values(m)
	sort.Ints(v)
	if len(v) != 4 || v[0] != 1 || v[3] != 4 {
		t.Fatal(v)
	}
	ks, vs := Pairs(m)
	for i := range ks {
		if m[ks[i]] != vs[i] {
			t.Fatal("pair mismatch")
		}
	}
	if len(ks) != 4 {
		t.Fatal(ks)
	}
	if Count(Set{"x": {}, "y": {}}) != 2 {
		t.Fatal("count")
	}
	if g := GenericKeys(map[int]bool{3: true, 1: true}); len(g) != 2 {
		t.Fatal(g)
	}
	sk := StructKeys()
	sort.Ints(sk)
	if len(sk) != 2 || sk[0] != 9 || sk[1] != 12 {
		t.Fatal(sk)
	}
	if n := Nested(map[string]map[string]int{"p": {"x": 1, "y": 2}, "q": {"z": 4}}); n != 7 {
		t.Fatal(n)
	}
	if n := DeleteDuring(map[int]int{1: 1, 2: 2, 3: 3}); n != 1 {
		t.Fatal("delete during iteration", n)
	}
	if CallOperand() != 3 {
		t.Fatal("call operand")
	}
	if c := InClosure(m)(); len(c) != 4 || c[0] != "a" {
		t.Fatal(c)
	}
	if SwitchCase(1, m) != 11 {
		t.Fatal("switch")
	}
	b := Bump()
	if Bump() != b+3 {
		t.Fatal("bump")
	}
	if Cached("abc") != 3 || Cached("abc") != 3 {
		t.Fatal("cache")
	}
	Forget("abc")
	if tb := Table(); len(tb) != 4 || tb[3] != 9 || len(Table()) != 4 {
		t.Fatal(tb)
	}
	Register(1, 2, "x")
	if Lookup(1, 2) != "x" {
		t.Fatal("lookup")
	}
	h := Hit()
	if Hit() != h+1 {
		t.Fatal("hit")
	}
	g := NewGuarded()
	if g.Inc() != 1 || g.Inc() != 2 {
		t.Fatal("guarded")
	}
	if NewHolder().Get(1) != 10 {
		t.Fatal("holder")
	}
	if FanOut([]int{1, 2, 3, 4}) != 10 {
		t.Fatal("fanout")
	}
	if FanOutNamed([]int64{1, 2, 3}) != 106 {
		t.Fatal("fanout named")
	}
	if InRange(3) != "in" || InRange(99) != "out" {
		t.Fatal("case expr")
	}
	if o := TypedGoArgs(); o[0] != 1.5 || o[1] != 8 {
		t.Fatal("typed go args", o)
	}
	if n := LabeledComplex(map[string]map[string]int{"a": {"x": 1, "skip": 2, "y": 3}, "b": {}}); n != 4 {
		t.Fatal("labeled complex", n)
	}
	if k := sorted(GenericConstraintKeys()); len(k) != 3 || k[0] != "a" {
		t.Fatal(k)
	}
	if Lazy() != 45 || Lazy() != 45 {
		t.Fatal("lazy")
	}
	if GuardedGet("abc") != 3 || MemoGet("ab") != 2 || ShardGet("abcd") != 4 || ShardGet("abcd") != 4 {
		t.Fatal("guarded caches")
	}
	if a, b := FieldsPerGoroutine(); a != 1 || b != 2 {
		t.Fatal("fields")
	}
	if ImpureIndex() != 10 {
		t.Fatal("impure index")
	}
	if MethodValueGo() != 100 {
		t.Fatal("method value go")
	}
	if Replace("banana") != "bbnbnb" {
		t.Fatal("replacer")
	}
	if GuardedIndex(5) != -1 {
		t.Fatal("guarded index")
	}
	if LockerGet("abc") != 3 || LockerGet("abc") != 3 {
		t.Fatal("locker")
	}
	a := MethodValueUnlock()
	if MethodValueUnlock() != a+1 {
		t.Fatal("method value unlock")
	}
	if GoWithResult() != 6 || EntryOnce("ab") != 4 || EntryOnce("ab") != 4 {
		t.Fatal("go with result / entry once")
	}
}
