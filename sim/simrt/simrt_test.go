package simrt

import (
	"sync"
	"testing"
	"time"
)

type inner struct {
	a int
	m map[string][]int
	p *inner
}
type outer struct {
	mu   sync.Mutex
	once sync.Once
	in   inner
	s    []*inner
	i    interface{}
}

var g1 = map[string]int{"a": 1}
var g2 = &outer{in: inner{a: 1, m: map[string][]int{"x": {1, 2}}}, s: []*inner{{a: 5}}, i: &inner{a: 9}}
var g3 []string
var g5 sync.Map
var g4 float64 = 2.5

func TestSnapshotRestore(t *testing.T) {
	Globals = nil
	RegisterGlobals("t", []Global{{"g1", &g1}, {"g2", &g2}, {"g3", &g3}, {"g4", &g4}, {"g5", &g5}})
	SnapshotGlobals()
	h0 := GlobalsHash()
	g5.Store("k", 1)
	g1["b"] = 2
	g2.in.m["x"][0] = 99
	g2.s[0].a = 6
	g2.i.(*inner).a = 10
	g2.once.Do(func() {})
	g3 = append(g3, "z")
	g4 = 3
	if GlobalsHash() == h0 {
		t.Fatal("hash did not change")
	}
	RestoreGlobals()
	if GlobalsHash() != h0 {
		t.Fatal("hash not restored")
	}
	if _, ok := g5.Load("k"); ok {
		t.Fatal("sync.Map not reset")
	}
	g5.Store("k2", 2)
	RestoreGlobals()
	if _, ok := g5.Load("k2"); ok {
		t.Fatal("sync.Map not reset the second time")
	}
	ran := false
	g2.once.Do(func() { ran = true })
	if !ran {
		t.Fatal("once not reset")
	}
	g1["c"] = 3
	RestoreGlobals()
	if len(g1) != 1 || g2.in.m["x"][0] != 1 || g2.s[0].a != 5 || g2.i.(*inner).a != 9 || g3 != nil || g4 != 2.5 {
		t.Fatalf("bad restore %v %v", g1, g2.in.m)
	}
}

func TestPolicies(t *testing.T) {
	for _, pol := range Policies {
		idx := []int{0, 1, 2, 3, 4}
		applyPolicy(idx, pol, 2)
		seen := map[int]bool{}
		for _, i := range idx {
			seen[i] = true
		}
		if len(seen) != 5 {
			t.Fatalf("%s not a permutation: %v", pol, idx)
		}
	}
	idx := []int{0, 1, 2, 3}
	applyPolicy(idx, PolFront, 2)
	if idx[0] != 2 || idx[1] != 0 || idx[2] != 1 || idx[3] != 3 {
		t.Fatal(idx)
	}
	idx = []int{0, 1, 2, 3}
	applyPolicy(idx, PolBack, 1)
	if idx[3] != 1 || idx[0] != 0 || idx[1] != 2 || idx[2] != 3 {
		t.Fatal(idx)
	}
}

func TestMapOrderStructKeys(t *testing.T) {
	type k struct{ a, b int64 }
	m := map[k]bool{{1, 2}: true, {1, 10}: true, {0, 5}: true}
	Active = true
	defer func() { Active = false }()
	SetRunOrder(NewAscOrder())
	var first []k
	for i := 0; i < 20; i++ {
		ks := MapOrder(0, m)
		if first == nil {
			first = ks
		}
		for j := range ks {
			if ks[j] != first[j] {
				t.Fatal("canonical order not stable")
			}
		}
	}
}

func TestRSchedParentHoldsLock(t *testing.T) {
	Active = true
	defer func() { Active = false }()
	rs := NewRSched(nil)
	var out []int
	rs.AddTask(func() {
		var wg sync.WaitGroup
		var mu sync.Mutex
		MutexLock(1, &mu)
		for i := 0; i < 3; i++ {
			WGAdd(2, &wg, 1)
			i := i
			Go(3, func() {
				defer WGDone(4, &wg)
				MutexLock(5, &mu)
				out = append(out, i)
				MutexUnlock(6, &mu)
			})
		}
		MutexUnlock(7, &mu)
		WGWait(8, &wg)
	}, NewAscOrder())
	if !rs.Run(5 * time.Second) {
		t.Fatal("stalled")
	}
	_, _, _, dl, _, _ := rs.Stats()
	if dl || len(out) != 3 {
		t.Fatal("deadlock", dl, out)
	}
}

// A fresh mutex and WaitGroup per loop iteration, thousands of iterations: the tables of
// simulated primitives must reuse the slots of primitives that are back in their neutral
// state instead of overflowing.
func TestRSchedPrimitiveSlotsAreReused(t *testing.T) {
	Active = true
	defer func() { Active = false }()
	rs := NewRSched(NewRand(5))
	sum := make([]int, 2)
	for k := 0; k < 2; k++ {
		k := k
		rs.AddTask(func() {
			for it := 0; it < 6000; it++ {
				var wg sync.WaitGroup
				var mu sync.Mutex
				MutexLock(1, &mu)
				for i := 0; i < 2; i++ {
					WGAdd(2, &wg, 1)
					Go(3, func() {
						defer WGDone(4, &wg)
						MutexLock(5, &mu)
						sum[k]++
						MutexUnlock(6, &mu)
					})
				}
				MutexUnlock(7, &mu)
				WGWait(8, &wg)
			}
		}, NewAscOrder())
	}
	for i := 0; i < 40; i++ {
		rs.PreemptGlobalAt(i * 997)
	}
	if !rs.Run(60 * time.Second) {
		t.Fatal("stalled")
	}
	_, _, _, dl, ovf, _ := rs.Stats()
	if dl || sum[0] != 12000 || sum[1] != 12000 {
		t.Fatal("deadlock or lost update", dl, sum)
	}
	_ = ovf // more than 4096 tasks in total: later ones run inline, which is fine here
}

// chanWorkload: an unbuffered job channel with three workers, a buffered semaphore, a
// results channel, close + range, and a "done" channel closed to release waiters.
func chanWorkload(id int, out []int) {
	jobs := make(chan int)
	results := make(chan int, 2)
	sem := make(chan struct{}, 2)
	done := make(chan struct{})
	var wg sync.WaitGroup
	for w := 0; w < 3; w++ {
		WGAdd(1, &wg, 1)
		Go(2, func() {
			defer WGDone(3, &wg)
			for {
				j, ok := ChanRecv2(4, jobs)
				if !ok {
					break
				}
				ChanSend(5, sem, struct{}{})
				ChanSend(6, results, j*j)
				ChanRecv(7, sem)
			}
			ChanRecv(8, done) // released by close
		})
	}
	sum := 0
	Go(9, func() {
		for i := 1; i <= 6; i++ {
			ChanSend(10, jobs, i)
		}
		ChanClose(11, jobs)
	})
	for i := 0; i < 6; i++ {
		sum += ChanRecv(12, results)
	}
	ChanClose(13, done)
	WGWait(14, &wg)
	out[id] = sum
}

func TestChannelsUnderBothSchedulers(t *testing.T) {
	Active = true
	defer func() { Active = false }()
	for seed := uint64(1); seed <= 60; seed++ {
		rng := NewRand(seed)
		out := make([]int, 2)
		// lane R
		rs := NewRSched(rng)
		for k := 0; k < 2; k++ {
			k := k
			rs.AddTask(func() { chanWorkload(k, out) }, NewAscOrder())
		}
		for i := 0; i < 10; i++ {
			rs.PreemptGlobalAt(rng.Intn(200))
			rs.PreemptAt(PKey{Task: rng.Intn(2), Class: 1, Idx: rng.Intn(40)})
		}
		if !rs.Run(20 * time.Second) {
			t.Fatal("lane R stalled, seed ", seed)
		}
		if _, _, _, dl, _, _ := rs.Stats(); dl || out[0] != 91 || out[1] != 91 {
			t.Fatal("lane R: deadlock or wrong sums", dl, out, seed)
		}
		// lane A
		out = make([]int, 2)
		s := NewSched(rng)
		for k := 0; k < 2; k++ {
			k := k
			s.AddTask(func() { chanWorkload(k, out) }, NewAscOrder())
		}
		for i := 0; i < 10; i++ {
			s.PreemptGlobal[rng.Intn(200)] = true
			s.PreemptAt[PKey{Task: rng.Intn(2), Class: 1, Idx: rng.Intn(40)}] = true
		}
		if !s.Run(20 * time.Second) {
			t.Fatal("lane A stalled, seed ", seed)
		}
		if s.Deadlock || out[0] != 91 || out[1] != 91 {
			t.Fatal("lane A: deadlock or wrong sums", s.Deadlock, out, seed)
		}
	}
}

// A package-level style worker pool: the workers outlive the calls. All caller tasks finish,
// the workers stay blocked on the job channel: the end of the run, not a deadlock.
func TestWorkersLeftBehindAreNotADeadlock(t *testing.T) {
	Active = true
	defer func() { Active = false }()
	for _, lane := range []string{"R", "A"} {
		jobs := make(chan int)
		res := make(chan int, 8)
		caller := func() {
			for w := 0; w < 2; w++ {
				Go(1, func() {
					for {
						j := ChanRecv(2, jobs)
						ChanSend(3, res, j+1)
					}
				})
			}
			ChanSend(4, jobs, 1)
			ChanSend(5, jobs, 2)
			if a, b := ChanRecv(6, res), ChanRecv(7, res); a+b != 5 {
				panic("wrong answers")
			}
		}
		if lane == "R" {
			rs := NewRSched(NewRand(3))
			rs.AddTask(caller, NewAscOrder())
			if !rs.Run(10 * time.Second) {
				t.Fatal("stalled")
			}
			if _, _, _, dl, _, _ := rs.Stats(); dl || rs.Leftover != 2 {
				t.Fatal("lane R: ", dl, rs.Leftover)
			}
		} else {
			s := NewSched(NewRand(3))
			s.AddTask(caller, NewAscOrder())
			if !s.Run(10 * time.Second) {
				t.Fatal("stalled")
			}
			if s.Deadlock || s.Leftover != 2 {
				t.Fatal("lane A: ", s.Deadlock, s.Leftover)
			}
		}
	}
}
