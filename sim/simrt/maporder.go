package simrt

import (
	"fmt"
	"sort"
	"sync"
)

// Map-order policies: the "fault kinds" of a library whose only internal nondeterminism is
// the iteration order of Go maps.
const (
	PolAsc     = "asc"     // canonical ascending order (baseline, shrink target)
	PolDesc    = "desc"    // descending
	PolRot     = "rot"     // rotation by Param
	PolFront   = "front"   // element Param first, rest ascending
	PolBack    = "back"    // element Param last, rest ascending
	PolShuffle = "shuffle" // Fisher-Yates from a generator seeded with Param
)

var Policies = []string{PolAsc, PolDesc, PolRot, PolFront, PolBack, PolShuffle}

// Decision is one seam visit at which the simulator chose a non-canonical order.
type Decision struct {
	Visit  int    `json:"visit"` // ordinal of the visit (visits with >= 2 keys only) within the run
	Site   int    `json:"site"`
	N      int    `json:"n"`
	Policy string `json:"policy"`
	Param  uint64 `json:"param,omitempty"`
}

// OrderSource decides the permutation at every seam visit of one run (or, under the
// scheduler, of one task). It either generates decisions from a PRNG and records them, or
// replays an explicit list; visits not listed get the canonical order.
type OrderSource struct {
	Replay    bool
	Rng       *Rand
	Weights   [6]int // weight per policy (index as in Policies); all zero = always asc
	Decisions []Decision
	byVisit   map[int]Decision
	visit     int
	// statistics
	Visits      int            // visits with n >= 2
	NonAsc      int            // of which non-canonical
	PerSitePol  map[string]int // "site.policy" -> count
	Unorderable int
}

func NewGenOrder(seed uint64, weights [6]int) *OrderSource {
	return &OrderSource{Rng: NewRand(seed), Weights: weights, PerSitePol: map[string]int{}}
}

func NewAscOrder() *OrderSource { return &OrderSource{PerSitePol: map[string]int{}} }

func NewReplayOrder(ds []Decision) *OrderSource {
	o := &OrderSource{Replay: true, Decisions: ds, byVisit: map[int]Decision{}, PerSitePol: map[string]int{}}
	for _, d := range ds {
		o.byVisit[d.Visit] = d
	}
	return o
}

func (o *OrderSource) choose(site, n int) (string, uint64) {
	v := o.visit
	o.visit++
	o.Visits++
	if o.Replay {
		if d, ok := o.byVisit[v]; ok && d.N == n && d.Site == site {
			return d.Policy, d.Param
		}
		return PolAsc, 0
	}
	tot := 0
	for _, w := range o.Weights {
		tot += w
	}
	if tot == 0 || o.Rng == nil {
		return PolAsc, 0
	}
	x := o.Rng.Intn(tot)
	pi := 0
	for i, w := range o.Weights {
		if x < w {
			pi = i
			break
		}
		x -= w
	}
	pol := Policies[pi]
	var param uint64
	switch pol {
	case PolRot:
		param = uint64(1 + o.Rng.Intn(n-1))
	case PolFront:
		param = uint64(1 + o.Rng.Intn(n-1)) // front 0 == asc
	case PolBack:
		param = uint64(o.Rng.Intn(n - 1)) // back n-1 == asc
	case PolShuffle:
		param = o.Rng.Uint64() >> 1
	}
	if pol != PolAsc {
		o.Decisions = append(o.Decisions, Decision{Visit: v, Site: site, N: n, Policy: pol, Param: param})
	}
	return pol, param
}

// applyPolicy permutes idx (initially 0..n-1 = canonical order) in place.
func applyPolicy(idx []int, pol string, param uint64) {
	n := len(idx)
	switch pol {
	case PolDesc:
		for i, j := 0, n-1; i < j; i, j = i+1, j-1 {
			idx[i], idx[j] = idx[j], idx[i]
		}
	case PolRot:
		r := int(param % uint64(n))
		tmp := make([]int, n)
		for i := range idx {
			tmp[i] = idx[(i+r)%n]
		}
		copy(idx, tmp)
	case PolFront:
		p := int(param % uint64(n))
		e := idx[p]
		copy(idx[1:p+1], idx[0:p])
		idx[0] = e
	case PolBack:
		p := int(param % uint64(n))
		e := idx[p]
		copy(idx[p:], idx[p+1:])
		idx[n-1] = e
	case PolShuffle:
		r := NewRand(param)
		for i := n - 1; i > 0; i-- {
			j := r.Intn(i + 1)
			idx[i], idx[j] = idx[j], idx[i]
		}
	}
}

// currentOrder returns the order source that owns the calling code: the running task's
// under the scheduler, the run's otherwise.
func currentOrder() *OrderSource {
	if rs := rInSim(); rs != nil {
		return rs.curOrder()
	}
	if sched != nil && sched.cur != nil && sched.cur.Order != nil {
		return sched.cur.Order
	}
	return runOrder
}

var runOrder *OrderSource

// RealGo: the library uses blocking constructs the simulator does not own (channels, select,
// Cond, timers). Its go statements then start real goroutines (running them inline could
// block forever), and the order source is shared under a lock. Which goroutine reaches a seam
// first is then not the simulator's choice: replay is no longer exact for such a tree, which
// the evidence says.
var RealGo bool
var orderMu sync.Mutex

// SetRunOrder installs the order source for code running outside the scheduler.
func SetRunOrder(o *OrderSource) { runOrder = o }

// MapOrder is what every `range` over a map is rewritten to call: it returns the keys of m
// in the order the simulator chose. With the simulator inactive it returns them in the
// order the Go runtime produced (pass-through).
func MapOrder[M ~map[K]V, K comparable, V any](site int, m M) []K {
	keys := make([]K, 0, len(m))
	for k := range m {
		keys = append(keys, k)
	}
	if !Active {
		return keys
	}
	n := len(keys)
	if n < 2 {
		return keys
	}
	if RealGo {
		orderMu.Lock()
		defer orderMu.Unlock()
	}
	o := currentOrder()
	if o == nil {
		return keys
	}
	if !sortKeys(keys) {
		// keys without a run-independent total order (pointers, channels): left in the
		// runtime's order and counted, so that the evidence shows the seam is not owned.
		o.Unorderable++
		return keys
	}
	pol, param := o.choose(site, n)
	o.PerSitePol[fmt.Sprintf("%d.%s", site, pol)]++
	if pol == PolAsc {
		return keys
	}
	o.NonAsc++
	idx := make([]int, n)
	for i := range idx {
		idx[i] = i
	}
	applyPolicy(idx, pol, param)
	out := make([]K, n)
	for i, j := range idx {
		out[i] = keys[j]
	}
	return out
}

// MapIterator is what a `range` over a map is rewritten to use: the keys in the order the
// simulator chose, each looked up when its turn comes (an entry deleted meanwhile is skipped,
// a value changed meanwhile is seen, as the language allows).
type MapIterator[M ~map[K]V, K comparable, V any] struct {
	m    M
	keys []K
	i    int
	nan  []V // values of keys that are not equal to themselves (NaN): they cannot be looked up
	K    K
	V    V
}

func MapIter[M ~map[K]V, K comparable, V any](site int, m M) *MapIterator[M, K, V] {
	it := &MapIterator[M, K, V]{m: m, keys: MapOrder(site, m)}
	for _, k := range it.keys {
		if k != k {
			for k2, v := range m {
				if k2 != k2 {
					it.nan = append(it.nan, v)
				}
			}
			break
		}
	}
	return it
}

func (it *MapIterator[M, K, V]) Next() bool {
	for it.i < len(it.keys) {
		k := it.keys[it.i]
		it.i++
		if k != k {
			if len(it.nan) == 0 {
				continue
			}
			it.K, it.V, it.nan = k, it.nan[0], it.nan[1:]
			return true
		}
		v, ok := it.m[k]
		if !ok {
			continue
		}
		it.K, it.V = k, v
		return true
	}
	return false
}

// sortKeys brings keys into a canonical total order. It reports false if no
// run-independent order exists for the key type.
func sortKeys[K comparable](keys []K) bool {
	switch ks := any(keys).(type) {
	case []string:
		sort.Strings(ks)
		return true
	case []int:
		sort.Ints(ks)
		return true
	case []int64:
		sort.Slice(ks, func(i, j int) bool { return ks[i] < ks[j] })
		return true
	case []int32:
		sort.Slice(ks, func(i, j int) bool { return ks[i] < ks[j] })
		return true
	case []uint64:
		sort.Slice(ks, func(i, j int) bool { return ks[i] < ks[j] })
		return true
	case []uint32:
		sort.Slice(ks, func(i, j int) bool { return ks[i] < ks[j] })
		return true
	case []float64:
		sort.Float64s(ks)
		return true
	}
	if !orderableType(keys[0]) {
		return false
	}
	rend := make([]string, len(keys))
	for i, k := range keys {
		rend[i] = renderKey(k)
	}
	idx := make([]int, len(keys))
	for i := range idx {
		idx[i] = i
	}
	sort.SliceStable(idx, func(a, b int) bool {
		ra, rb := rend[idx[a]], rend[idx[b]]
		if len(ra) != len(rb) {
			return len(ra) < len(rb)
		}
		return ra < rb
	})
	tmp := make([]K, len(keys))
	for i, j := range idx {
		tmp[i] = keys[j]
	}
	copy(keys, tmp)
	return true
}
