package simrt

// Access marks a statement that touches a package-level variable (R3) or a local captured
// by one of the library's own goroutine closures (R3b). It is a yield point of class 1: the
// place where a preemption can separate a read of shared state from the write that depends
// on it. Whether two accesses are ordered is not judged here: that is the race detector's
// job in lane R (the same hooks, the same schedules, inside a -race build).
func Access(site, v, kind int) {
	if !Active {
		return
	}
	if rs := rInSim(); rs != nil {
		rs.yield(site, 1)
		return
	}
	if s := sched; s != nil && s.cur != nil {
		s.yield(site, 1)
	}
}
