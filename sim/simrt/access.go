package simrt

// Hooks at statements that touch package-level variables (R3) and locals captured by the
// library's own goroutine closures (R3b). They are yield points of class 1: the places where
// a preemption can separate a read of shared state from the write that depends on it.
// Whether two accesses are ordered is not judged here: that is the race detector's job in
// lane R (the same hooks, the same schedules, inside a -race build).

// Access marks a statement that touches a package-level variable as a whole.
func Access(site, v, kind int) { AccessC(site, v, kind, nil) }

// AccessC marks a statement that touches a first-level component of a package-level variable.
func AccessC(site, v, kind int, p any) {
	if !Active {
		return
	}
	if rs := rInSim(); rs != nil {
		rs.yield(site, 1)
		return
	}
	if s := sched; s != nil && s.cur != nil {
		s.yield(site, 1)
	}
}

// AccessL marks a statement that touches a local variable shared with goroutines the
// library started (captured by a `go func(){...}` closure).
func AccessL(site, v, kind int, p any) { AccessC(site, v, kind, p) }
