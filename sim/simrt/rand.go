package simrt

// Rand is a xoshiro256** generator seeded through splitmix64. It is written out here so
// that a seed means the same sequence under every Go toolchain.
type Rand struct{ s [4]uint64 }

//go:norace
func splitmix64(x *uint64) uint64 {
	*x += 0x9e3779b97f4a7c15
	z := *x
	z = (z ^ (z >> 30)) * 0xbf58476d1ce4e5b9
	z = (z ^ (z >> 27)) * 0x94d049bb133111eb
	return z ^ (z >> 31)
}

// Mix derives a 64-bit value from a list of integers (seed, case index, run index ...).
func Mix(vals ...uint64) uint64 {
	var x uint64 = 0x243f6a8885a308d3
	for _, v := range vals {
		x ^= v
		_ = splitmix64(&x)
		x = x*0x9e3779b97f4a7c15 + 0x7f4a7c15
	}
	return splitmix64(&x)
}

func NewRand(seed uint64) *Rand {
	r := &Rand{}
	x := seed
	for i := range r.s {
		r.s[i] = splitmix64(&x)
	}
	return r
}

//go:norace
func rotl(x uint64, k uint) uint64 { return (x << k) | (x >> (64 - k)) }

//go:norace
func (r *Rand) Uint64() uint64 {
	res := rotl(r.s[1]*5, 7) * 9
	t := r.s[1] << 17
	r.s[2] ^= r.s[0]
	r.s[3] ^= r.s[1]
	r.s[1] ^= r.s[2]
	r.s[0] ^= r.s[3]
	r.s[2] ^= t
	r.s[3] = rotl(r.s[3], 45)
	return res
}

// Intn returns a value in [0,n). n <= 0 yields 0.
//
//go:norace
func (r *Rand) Intn(n int) int {
	if n <= 1 {
		return 0
	}
	return int(r.Uint64() % uint64(n))
}

//go:norace
func (r *Rand) Int63n(n int64) int64 {
	if n <= 1 {
		return 0
	}
	return int64(r.Uint64() % uint64(n))
}

// Range returns a value in [lo,hi] (inclusive).
//
//go:norace
func (r *Rand) Range(lo, hi int64) int64 {
	if hi <= lo {
		return lo
	}
	return lo + int64(r.Uint64()%uint64(hi-lo+1))
}

//go:norace
func (r *Rand) Float64() float64 { return float64(r.Uint64()>>11) / (1 << 53) }

//go:norace
func (r *Rand) Bool() bool { return r.Uint64()&1 == 1 }

// Chance is true with probability num/den.
//
//go:norace
func (r *Rand) Chance(num, den int) bool { return r.Intn(den) < num }

// Perm returns a permutation of 0..n-1 (Fisher-Yates).
//
//go:norace
func (r *Rand) Perm(n int) []int {
	p := make([]int, n)
	for i := range p {
		p[i] = i
	}
	for i := n - 1; i > 0; i-- {
		j := r.Intn(i + 1)
		p[i], p[j] = p[j], p[i]
	}
	return p
}
