package simrt

import (
	"unsafe"
)

// Channels the library makes and uses itself (no select, no channel handed to or obtained
// from code outside the library - the instrumenter checks that) are simulated like the sync
// primitives: the simulated operation blocks by hand-off, the real operation follows and is
// then guaranteed not to block (or to block only until the partner of a rendezvous, who is
// released at the same moment, performs its half). Values travel through the real channel,
// so in lane R the race detector sees the happens-before edges of the real operations.
//
//   - buffered channel: the real channel is the truth for occupancy - a send may proceed when
//     len(ch) < cap(ch), a receive when len(ch) > 0 or the channel is closed; the simulator
//     only keeps the "closed" flag;
//   - unbuffered channel: a task that finds no partner queues itself and blocks; a task that
//     finds a queued partner takes it off the queue, marks it runnable, wakes it out of band
//     (without making it the running task) and both perform their real operation; the partner
//     then waits until the scheduler picks it;
//   - close wakes everybody; receivers of a closed channel proceed, senders panic as they do
//     for real.
//
// A goroutine of the library that is still blocked when all caller tasks have finished (the
// worker of a package-level pool) is not a deadlock: the run is over and the goroutine stays
// behind.

// chanSim is what the channel shims need from a scheduler.
type chanSim interface {
	chYield(site int)
	chBlock(p unsafe.Pointer) (tok unsafe.Pointer, passive bool) // park the running task until it is woken (false wake-ups allowed); passive: woken out of band as the partner of a rendezvous - the caller is then NOT the running task
	chWake(p unsafe.Pointer)                                     // the tasks blocked on channel p re-check their condition when they run next
	chClosed(p unsafe.Pointer) bool                              // close(ch) was simulated for this channel
	chSetClosed(p unsafe.Pointer)                                //
	chMeet(p unsafe.Pointer, send bool) (active bool, ok bool)   // unbuffered: see rendezvous
	chLeave(p unsafe.Pointer, send bool)                         // take the running task off the queue again
	chPark(tok unsafe.Pointer)                                   // after the passive half of a rendezvous: wait to be scheduled
}

func curChanSim() chanSim {
	if !Active || RealGo {
		return nil
	}
	if rs := rInSim(); rs != nil {
		return rs
	}
	if s := inSim(); s != nil {
		return s
	}
	return nil
}

func chanPtr[C any](ch C) unsafe.Pointer { return *(*unsafe.Pointer)(unsafe.Pointer(&ch)) }

// rendezvous brings the running task together with a partner on an unbuffered channel. It
// returns passive=true if this goroutine is the one that waited (it must call chPark after
// its real operation), closed=true if the channel was closed instead.
func rendezvous(k chanSim, site int, p unsafe.Pointer, send bool) (tok unsafe.Pointer, closed bool) {
	k.chYield(site)
	for {
		if k.chClosed(p) {
			return nil, true
		}
		active, ok := k.chMeet(p, send)
		if ok && active {
			return nil, false
		}
		// queued (or still queued): wait
		t, passive := k.chBlock(p)
		if passive {
			return t, false // from here on this goroutine is not the running task until chPark returns
		}
		if k.chClosed(p) {
			k.chLeave(p, send)
			return nil, true
		}
	}
}

// ChanSend replaces `ch <- v`.
func ChanSend[C interface{ ~chan T | ~chan<- T }, T any](site int, ch C, v T) {
	k := curChanSim()
	if k == nil {
		ch <- v
		return
	}
	p := chanPtr(ch)
	if p == nil {
		for { // a nil channel blocks for ever
			k.chBlock(p)
		}
	}
	if cap(ch) > 0 {
		k.chYield(site)
		for len(ch) >= cap(ch) && !k.chClosed(p) {
			k.chBlock(p)
		}
		ch <- v // room, or closed (panics, as it should)
		k.chWake(p)
		return
	}
	tok, _ := rendezvous(k, site, p, true)
	ch <- v
	if tok != nil {
		k.chPark(tok)
	}
}

// ChanRecv replaces `<-ch`, ChanRecv2 the two-value form.
func ChanRecv[C interface{ ~chan T | ~<-chan T }, T any](site int, ch C) T {
	v, _ := ChanRecv2[C, T](site, ch)
	return v
}

func ChanRecv2[C interface{ ~chan T | ~<-chan T }, T any](site int, ch C) (T, bool) {
	k := curChanSim()
	if k == nil {
		v, ok := <-ch
		return v, ok
	}
	p := chanPtr(ch)
	if p == nil {
		for {
			k.chBlock(p)
		}
	}
	if cap(ch) > 0 {
		k.chYield(site)
		for len(ch) == 0 && !k.chClosed(p) {
			k.chBlock(p)
		}
		v, ok := <-ch
		k.chWake(p)
		return v, ok
	}
	tok, _ := rendezvous(k, site, p, false)
	v, ok := <-ch
	if tok != nil {
		k.chPark(tok)
	}
	return v, ok
}

// ChanClose replaces close(ch).
func ChanClose[C interface{ ~chan T | ~chan<- T }, T any](site int, ch C) {
	k := curChanSim()
	if k == nil {
		close(ch)
		return
	}
	k.chYield(site)
	close(ch)
	k.chSetClosed(chanPtr(ch))
	k.chWake(chanPtr(ch))
}
