package simrt

import (
	"runtime"
	"sync"
	"sync/atomic"
	"syscall"
	"time"
	"unsafe"
)

// Race-mode scheduler ("lane R").
//
// The same idea as Sched - tasks are real goroutines released one at a time, the simulator
// decides who runs - built so that it can run inside a binary compiled with the Go race
// detector, which then is the oracle for data races under simulator-chosen interleavings:
//
//   - the hand-off between goroutines goes through raw pipe system calls, which the race
//     detector does not treat as synchronisation: two tasks that run one after the other are
//     still concurrent as far as it can tell, exactly as two real callers would be;
//   - every function that touches the scheduler's own shared state is //go:norace and uses
//     plain loads and stores on fixed arrays (no maps, channels or growing slices, whose
//     runtime helpers report to the detector);
//   - the sync shims take the simulated primitive first (that is what blocks) and then the
//     real one, uncontended, so that the detector sees exactly the happens-before edges the
//     library's own locking creates;
//   - the library's go statements start real goroutines (a real creation edge) that are
//     tasks too.
//
// What the detector reports is therefore a race of the library (or of the library with a
// caller that owns what it was handed), not of the harness.

// rMaxTasks bounds the tasks of one run, rMaxLive those alive at the same time: every parked
// task holds an OS thread (it sits in a raw read), and sixteen workers run side by side
const rMaxTasks = 1 << 20
const rMaxLive = 384
const rTab = 4096 // slots per table of simulated primitives (open addressing)

//go:norace
func rSlot(p unsafe.Pointer) int { return int((uint64(uintptr(p)) >> 3) * 0x9e3779b97f4a7c15 >> 52) }

type RTask struct {
	ID        int
	Fn        func()
	Order     *OrderSource
	state     int
	rd, wr    int // wake pipe: the task reads rd
	Yields    int
	AccYields int
	SyncOps   int
	depth     int
	CallIdx   int
	Panic     any
	Done      chan struct{} // closed when the task is over: the one visible edge, task -> main
	parent    int
	lastSite  int
	LastErr   error
	blockedOn unsafe.Pointer // the primitive the task waits for
	qnext     *RTask         // link in the wait queue of an unbuffered channel
	queued    bool
	rv        bool   // woken out of band as the partner of a channel rendezvous
	syncWord  uint32 // released (atomic store) whenever the task parks: gives the driver a happens-before edge from tasks that never finish
}

type rMutex struct {
	key     unsafe.Pointer
	owner   *RTask
	readers int
}

type rChan struct {
	key    unsafe.Pointer
	closed bool
	sendq  rQueue // tasks waiting to send / to receive on an unbuffered channel
	recvq  rQueue
}

// rQueue is a FIFO of tasks, linked through the tasks themselves (no allocation, no limit).
type rQueue struct{ head, tail *RTask }

//go:norace
func (q *rQueue) push(t *RTask) {
	t.qnext, t.queued = nil, true
	if q.tail == nil {
		q.head, q.tail = t, t
	} else {
		q.tail.qnext = t
		q.tail = t
	}
}

//go:norace
func (q *rQueue) pop() *RTask {
	t := q.head
	if t != nil {
		q.head = t.qnext
		if q.head == nil {
			q.tail = nil
		}
		t.qnext, t.queued = nil, false
	}
	return t
}

//go:norace
func (q *rQueue) remove(t *RTask) {
	var prev *RTask
	for x := q.head; x != nil; prev, x = x, x.qnext {
		if x == t {
			if prev == nil {
				q.head = x.qnext
			} else {
				prev.qnext = x.qnext
			}
			if q.tail == x {
				q.tail = prev
			}
			t.qnext, t.queued = nil, false
			return
		}
	}
}

type rTables struct {
	chans       [rTab]rChan
	sparerChan  rChan
	mutexes     [rTab]rMutex
	onces       [rTab]rOnce
	wgs         [rTab]rWG
	sparerMutex rMutex
	sparerOnce  rOnce
	sparerWG    rWG
}

// rTombstone marks a slot whose primitive went back to its neutral state (mutex free,
// WaitGroup at zero): code that creates a fresh mutex or WaitGroup per loop iteration would
// otherwise fill the table.
var rTombByte byte
var rTombstone = unsafe.Pointer(&rTombByte)

type rOnce struct {
	key    unsafe.Pointer
	state  int
	runner *RTask
}

type rWG struct {
	key unsafe.Pointer
	n   int
}

type RSched struct {
	tasks          []*RTask
	n              int
	cur            *RTask
	YieldN         int
	Rng            *Rand
	Replay         bool
	plan           [256]PKey // generate mode: task-local yields at which to preempt
	nplan          int
	rplan          [256]SchedDecision // replay mode: preemptions
	nrplan         int
	roth           [256]SchedDecision // replay mode: start/finish/block choices in order
	nroth          int
	othPos         int
	dec            []SchedDecision
	Frozen         bool
	Deadlock       bool
	Switches       int
	MaxYields      int
	mainRd, mainWr int
	tabs           *rTables // simulated primitives, allocated at first use
	AbortYields    int
	Overrun        bool
	Stalled        bool
	GoCalls        int
	Chain          int // generate mode: preemptions that are followed by one of the task that got control
	arm            int
	Leftover       int // goroutines of the library still blocked when the run ended (every caller task had finished)
	live           int
	pglobal        [64]int // generate mode: global yield indices at which whoever runs is preempted
	npglobal       int
	base           int // goroutines that existed before the run
	UnownedSeen    bool
	overflow       bool
}

var rsched *RSched

func rawWrite(fd int) {
	b := [1]byte{1}
	for {
		n, _, e := syscall.Syscall(syscall.SYS_WRITE, uintptr(fd), uintptr(unsafe.Pointer(&b[0])), 1)
		if n == 1 {
			return
		}
		if e != syscall.EINTR && e != syscall.EAGAIN {
			panic("simrt: raw write failed: " + e.Error())
		}
	}
}

func rawRead(fd int) {
	var b [1]byte
	for {
		n, _, e := syscall.Syscall(syscall.SYS_READ, uintptr(fd), uintptr(unsafe.Pointer(&b[0])), 1)
		if n == 1 {
			return
		}
		if e != syscall.EINTR && e != syscall.EAGAIN && e != 0 {
			panic("simrt: raw read failed: " + e.Error())
		}
	}
}

func NewRSched(rng *Rand) *RSched {
	rs := &RSched{tasks: make([]*RTask, 0, 64), Rng: rng, MaxYields: 5_000_000, dec: make([]SchedDecision, 0, 512)}
	var p [2]int
	if err := syscall.Pipe(p[:]); err != nil {
		panic(err)
	}
	rs.mainRd, rs.mainWr = p[0], p[1]
	return rs
}

func NewReplayRSched(ds []SchedDecision) *RSched {
	rs := NewRSched(nil)
	rs.Replay = true
	for _, d := range ds {
		if d.Kind == "preempt" {
			if rs.nrplan < len(rs.rplan) {
				rs.rplan[rs.nrplan] = d
				rs.nrplan++
			}
		} else if rs.nroth < len(rs.roth) {
			rs.roth[rs.nroth] = d
			rs.nroth++
		}
	}
	return rs
}

// AddTask is called by the main goroutine before Run.
func (rs *RSched) AddTask(fn func(), order *OrderSource) *RTask {
	t := rs.newTask(fn, order, -1)
	return t
}

//go:norace
func (rs *RSched) newTask(fn func(), order *OrderSource, parent int) *RTask {
	if rs.n >= rMaxTasks || rs.live >= rMaxLive {
		rs.overflow = true
		return nil
	}
	rs.live++
	var p [2]int
	if err := syscall.Pipe(p[:]); err != nil {
		panic(err)
	}
	t := &RTask{ID: rs.n, Fn: fn, Order: order, rd: p[0], wr: p[1], Done: make(chan struct{}), parent: parent}
	if len(rs.tasks) == cap(rs.tasks) {
		// grown by hand: append would call a runtime helper that reports to the race detector
		bigger := make([]*RTask, len(rs.tasks), 4*cap(rs.tasks))
		for i, x := range rs.tasks {
			bigger[i] = x
		}
		rs.tasks = bigger
	}
	rs.tasks = append(rs.tasks, t)
	rs.n++
	return t
}

// PreemptGlobalAt adds a preemption at a global yield index (reaches goroutines the library
// starts itself, whose task ids are not known in advance).
func (rs *RSched) PreemptGlobalAt(n int) {
	if rs.npglobal < len(rs.pglobal) {
		rs.pglobal[rs.npglobal] = n
		rs.npglobal++
	}
}

// PreemptAt adds a task-local preemption point (generate mode; before Run).
func (rs *RSched) PreemptAt(k PKey) {
	if rs.nplan < len(rs.plan) {
		rs.plan[rs.nplan] = k
		rs.nplan++
	}
}

func (rs *RSched) Decisions() []SchedDecision {
	return append([]SchedDecision(nil), rs.dec...)
}

//go:norace
func (rs *RSched) record(d SchedDecision) {
	if len(rs.dec) < cap(rs.dec) {
		rs.dec = append(rs.dec, d) // within the capacity: no reallocation, no runtime hook
	}
}

//go:norace
func (rs *RSched) nthRunnable(k int, except *RTask) (*RTask, int) {
	nc := 0
	var hit *RTask
	for i := 0; i < rs.n; i++ {
		t := rs.tasks[i]
		if t.state == stRunnable && t != except {
			if nc == k {
				hit = t
			}
			nc++
		}
	}
	return hit, nc
}

//go:norace
func (rs *RSched) runnableByID(id int, except *RTask) *RTask {
	if id >= 0 && id < rs.n {
		if t := rs.tasks[id]; t.state == stRunnable && t != except {
			return t
		}
	}
	return nil
}

//go:norace
func (rs *RSched) pickOther(kind string, from *RTask) *RTask {
	first, nc := rs.nthRunnable(0, from)
	if nc == 0 {
		return nil
	}
	to := first
	if rs.Replay {
		if rs.othPos < rs.nroth {
			d := rs.roth[rs.othPos]
			rs.othPos++
			if t := rs.runnableByID(d.To, from); t != nil {
				to = t
			}
		}
	} else if rs.Rng != nil && !rs.Frozen {
		to, _ = rs.nthRunnable(rs.Rng.Intn(nc), from)
	}
	fid := -1
	if from != nil {
		fid = from.ID
	}
	rs.record(SchedDecision{Kind: kind, Yield: rs.YieldN, From: fid, To: to.ID})
	return to
}

// Run executes all tasks; false if the run stalled.
func (rs *RSched) Run(watchdog time.Duration) bool {
	rs.base = runtime.NumGoroutine()
	rsched = rs
	for i := 0; i < rs.n; i++ {
		rs.start(rs.tasks[i])
	}
	first := rs.pickOther("start", nil)
	if first == nil {
		rsched = nil
		return true
	}
	rs.setCur(first)
	rawWrite(first.wr)
	ok := true
	fin := make(chan struct{})
	go func() { rawRead(rs.mainRd); close(fin) }()
	select {
	case <-fin:
	case <-time.After(watchdog):
		ok = false
	}
	if ok {
		// the visible edges: every finished task happens-before what main does next
		for i := 0; i < rs.nSnapshot(); i++ {
			t := rs.tasks[i]
			if rs.taskState(t) == stDone {
				<-t.Done
			} else {
				atomic.LoadUint32(&t.syncWord) // acquire: a task that stays behind, blocked
			}
		}
	}
	rs.Stalled = !ok
	// more goroutines than the scheduler started: something runs that it does not own
	if tooManyGoroutines(rs.base + rs.nSnapshot() + 2) {
		rs.UnownedSeen = true
	}
	if ok && !rs.Deadlock && rs.Leftover == 0 {
		rs.closeTaskPipes()
		syscall.Close(rs.mainRd)
		syscall.Close(rs.mainWr)
	}
	rsched = nil
	return ok
}

//go:norace
func (rs *RSched) closeTaskPipes() {
	for i := 0; i < rs.n; i++ {
		if t := rs.tasks[i]; t.rd >= 0 {
			syscall.Close(t.rd)
			syscall.Close(t.wr)
			t.rd, t.wr = -1, -1
		}
	}
}

//go:norace
func (rs *RSched) nSnapshot() int { return rs.n }

//go:norace
func (rs *RSched) taskState(t *RTask) int { return t.state }

//go:norace
func (rs *RSched) setCur(t *RTask) { rs.cur = t }

//go:norace
func rcur() *RTask {
	if rs := rsched; rs != nil {
		return rs.cur
	}
	return nil
}

func (rs *RSched) start(t *RTask) {
	go func() {
		rawRead(t.rd)
		func() {
			defer func() {
				if r := recover(); r != nil {
					t.Panic = r
				}
			}()
			t.Fn()
		}()
		close(t.Done)
		rs.finish(t)
	}()
}

//go:norace
func (rs *RSched) finish(t *RTask) {
	t.state = stDone
	rs.live--
	syscall.Close(t.rd) // nobody wakes a finished task
	syscall.Close(t.wr)
	t.rd, t.wr = -1, -1
	next := rs.pickOther("finish", t)
	if next == nil {
		// nobody runnable: the run is over. Unfinished caller tasks mean a deadlock; goroutines
		// of the library that are still blocked (workers of a pool waiting for work) stay behind
		for i := 0; i < rs.n; i++ {
			if x := rs.tasks[i]; x.state != stDone {
				if x.parent < 0 {
					rs.Deadlock = true
				} else {
					rs.Leftover++
				}
			}
		}
		rawWrite(rs.mainWr)
		return
	}
	rs.cur = next
	rawWrite(next.wr)
}

//go:norace
func (rs *RSched) handoff(from, to *RTask) {
	rs.cur = to
	rawWrite(to.wr)
	rawRead(from.rd)
}

//go:norace
func (rs *RSched) yield(site, class int) {
	t := rs.cur
	if t == nil {
		return
	}
	n := rs.YieldN
	rs.YieldN++
	i0, i1 := t.Yields, t.AccYields
	t.Yields++
	if class == 1 {
		t.AccYields++
	}
	t.lastSite = site
	if n&1023 == 1023 && tooManyGoroutines(rs.base+rs.n+2) {
		rs.UnownedSeen = true // goroutines the scheduler did not start are running
	}
	if rs.AbortYields > 0 && rs.YieldN > rs.AbortYields {
		rs.Overrun = true
		panic(ErrBudget)
	}
	if rs.Frozen {
		return
	}
	if rs.YieldN > rs.MaxYields {
		rs.Frozen = true
		return
	}
	var to *RTask
	var key PKey
	hit := false
	if rs.Replay {
		for i := 0; i < rs.nrplan; i++ {
			d := rs.rplan[i]
			if d.From == t.ID && ((d.Class == 0 && d.Idx == i0) || (class == 1 && d.Class == 1 && d.Idx == i1)) {
				hit, key = true, PKey{t.ID, d.Class, d.Idx}
				to = rs.runnableByID(d.To, t)
				break
			}
		}
		if to == nil {
			hit = false
		}
	} else {
		for i := 0; i < rs.nplan; i++ {
			k := rs.plan[i]
			if k.Task == t.ID && ((k.Class == 0 && k.Idx == i0) || (class == 1 && k.Class == 1 && k.Idx == i1)) {
				hit, key = true, k
				break
			}
		}
		for i := 0; i < rs.npglobal && !hit; i++ {
			if rs.pglobal[i] == n {
				hit, key = true, PKey{t.ID, 0, i0}
			}
		}
		if class == 1 && rs.arm > 0 { // chained preemptions, see Sched.yield
			rs.arm--
			if rs.arm == 0 && !hit {
				hit, key = true, PKey{t.ID, 1, i1}
			}
		}
		if hit {
			_, nc := rs.nthRunnable(0, t)
			if nc > 0 {
				to, _ = rs.nthRunnable(rs.Rng.Intn(nc), t)
			} else {
				hit = false
			}
		}
	}
	if !hit || to == nil {
		return
	}
	if !rs.Replay && rs.Chain > 0 {
		rs.Chain--
		rs.arm = 1 + rs.Rng.Intn(3)
	}
	rs.record(SchedDecision{Kind: "preempt", Yield: n, From: t.ID, To: to.ID, Site: site, Depth: t.depth, Class: key.Class, Idx: key.Idx})
	if t.depth > 0 {
		rs.Switches++
	}
	rs.handoff(t, to)
}

//go:norace
func (rs *RSched) block(t *RTask) {
	t.state = stBlocked
	atomic.StoreUint32(&t.syncWord, 1) // release: what this task did so far happens-before whoever acquires the word
	next := rs.pickOther("block", t)
	if next == nil {
		for i := 0; i < rs.n; i++ {
			if x := rs.tasks[i]; x.state != stDone {
				if x.parent < 0 {
					rs.Deadlock = true
				} else {
					rs.Leftover++
				}
			}
		}
		rawWrite(rs.mainWr)
		rawRead(t.rd) // parked for good
		return
	}
	rs.handoff(t, next)
}

// wakeBlockedOn makes the tasks that wait for primitive p runnable; they re-check their
// condition when they run. (Waking everybody that is blocked costs a scheduling round trip
// per task and event: quadratic with a few hundred goroutines on one channel.)
//
//go:norace
func (rs *RSched) wakeBlockedOn(p unsafe.Pointer) {
	for i := 0; i < rs.n; i++ {
		if t := rs.tasks[i]; t.state == stBlocked && (t.blockedOn == p || t.blockedOn == nil) {
			t.state = stRunnable
		}
	}
}

//go:norace
func (rs *RSched) wakeAllBlocked() {
	for i := 0; i < rs.n; i++ {
		if rs.tasks[i].state == stBlocked {
			rs.tasks[i].state = stRunnable // they re-check their condition when they run
		}
	}
}

//go:norace
func (rs *RSched) mutexFor(p unsafe.Pointer) *rMutex {
	if rs.tabs == nil {
		rs.tabs = &rTables{}
	}
	i := rSlot(p)
	free := -1
	for n := 0; n < rTab; n++ {
		j := (i + n) & (rTab - 1)
		e := &rs.tabs.mutexes[j]
		if e.key == p {
			return e
		}
		if e.key == rTombstone {
			if free < 0 {
				free = j
			}
			continue
		}
		if e.key == nil {
			if free < 0 {
				free = j
			}
			break
		}
	}
	if free >= 0 {
		e := &rs.tabs.mutexes[free]
		*e = rMutex{key: p}
		return e
	}
	// every slot holds a primitive that is in use: the run is marked and gives no verdict
	rs.overflow = true
	rs.tabs.sparerMutex = rMutex{key: p}
	return &rs.tabs.sparerMutex
}

//go:norace
func (rs *RSched) lock(p unsafe.Pointer, site int, shared bool) {
	t := rs.cur
	t.SyncOps++
	rs.yield(site, 1)
	m := rs.mutexFor(p)
	for !(m.owner == nil && (shared || m.readers == 0)) {
		t.blockedOn = p
		rs.block(t)
		t.blockedOn = nil
		m = rs.mutexFor(p) // the slot may have been released and reused meanwhile
	}
	if shared {
		m.readers++
	} else {
		m.owner = t
	}
}

//go:norace
func (rs *RSched) unlock(p unsafe.Pointer, site int, shared bool) {
	t := rs.cur
	t.SyncOps++
	m := rs.mutexFor(p)
	if shared {
		if m.readers > 0 {
			m.readers--
		}
	} else {
		m.owner = nil
	}
	if m.owner == nil && m.readers == 0 {
		m.key = rTombstone
	}
	rs.wakeBlockedOn(p)
	rs.yield(site, 1)
}

//go:norace
func (rs *RSched) tryLock(p unsafe.Pointer, site int) bool {
	t := rs.cur
	t.SyncOps++
	m := rs.mutexFor(p)
	if m.owner == nil && m.readers == 0 {
		m.owner = t
		return true
	}
	return false
}

//go:norace
func (rs *RSched) tryRLock(p unsafe.Pointer, site int) bool {
	t := rs.cur
	t.SyncOps++
	m := rs.mutexFor(p)
	if m.owner == nil {
		m.readers++
		return true
	}
	if m.readers == 0 && m.owner == nil {
		m.key = rTombstone
	}
	return false
}

//go:norace
func (rs *RSched) syncMark() { rs.cur.SyncOps++ }

//go:norace
func (rs *RSched) syncOp(site int) {
	rs.cur.SyncOps++
	rs.yield(site, 1)
}

//go:norace
func (rs *RSched) curOrder() *OrderSource { return rs.cur.Order }

//go:norace
func (rs *RSched) onceFor(p unsafe.Pointer) *rOnce {
	if rs.tabs == nil {
		rs.tabs = &rTables{}
	}
	i := rSlot(p)
	free := -1
	for n := 0; n < rTab; n++ {
		j := (i + n) & (rTab - 1)
		e := &rs.tabs.onces[j]
		if e.key == p {
			return e
		}
		if e.key == rTombstone {
			if free < 0 {
				free = j
			}
			continue
		}
		if e.key == nil {
			if free < 0 {
				free = j
			}
			break
		}
	}
	if free >= 0 {
		e := &rs.tabs.onces[free]
		*e = rOnce{key: p}
		return e
	}
	// every slot holds a primitive that is in use: the run is marked and gives no verdict
	rs.overflow = true
	rs.tabs.sparerOnce = rOnce{key: p}
	return &rs.tabs.sparerOnce
}

// onceEnter returns true if the caller is to run the function.
//
//go:norace
func (rs *RSched) onceEnter(p unsafe.Pointer, site int) bool {
	t := rs.cur
	t.SyncOps++
	rs.yield(site, 1)
	o := rs.onceFor(p)
	for o.state == 1 && o.runner != t {
		rs.block(t)
	}
	if o.state == 2 {
		return false
	}
	if o.state == 1 {
		panic("sync: Once.Do called recursively (simulated deadlock)")
	}
	o.state, o.runner = 1, t
	return true
}

//go:norace
func (rs *RSched) onceLeave(p unsafe.Pointer) {
	o := rs.onceFor(p)
	o.state = 2
	rs.wakeAllBlocked()
}

//go:norace
func (rs *RSched) wgFor(p unsafe.Pointer) *rWG {
	if rs.tabs == nil {
		rs.tabs = &rTables{}
	}
	i := rSlot(p)
	free := -1
	for n := 0; n < rTab; n++ {
		j := (i + n) & (rTab - 1)
		e := &rs.tabs.wgs[j]
		if e.key == p {
			return e
		}
		if e.key == rTombstone {
			if free < 0 {
				free = j
			}
			continue
		}
		if e.key == nil {
			if free < 0 {
				free = j
			}
			break
		}
	}
	if free >= 0 {
		e := &rs.tabs.wgs[free]
		*e = rWG{key: p}
		return e
	}
	// every slot holds a primitive that is in use: the run is marked and gives no verdict
	rs.overflow = true
	rs.tabs.sparerWG = rWG{key: p}
	return &rs.tabs.sparerWG
}

//go:norace
func (rs *RSched) wgAdd(p unsafe.Pointer, site, n int) {
	g := rs.wgFor(p)
	g.n += n
	rs.cur.SyncOps++
	if g.n <= 0 {
		g.key = rTombstone
		rs.wakeBlockedOn(p)
	}
	rs.yield(site, 1)
}

//go:norace
func (rs *RSched) wgWait(p unsafe.Pointer, site int) {
	t := rs.cur
	t.SyncOps++
	rs.yield(site, 1)
	for rs.wgFor(p).n > 0 {
		t.blockedOn = p
		rs.block(t)
		t.blockedOn = nil
	}
	if g := rs.wgFor(p); g.n == 0 {
		g.key = rTombstone // looked up only to find it at zero
	}
}

//go:norace
func (rs *RSched) goTask(site int, f func()) *RTask {
	p := rs.cur
	p.SyncOps++
	rs.GoCalls++
	// a goroutine of the library gets a map-order source of its own (derived from its parent's:
	// two goroutines must not share simulator state the race detector can see)
	var o *OrderSource
	if po := p.Order; po != nil && po.Rng != nil {
		o = NewGenOrder(po.Rng.Uint64()|1, po.Weights)
	} else {
		o = NewAscOrder()
	}
	t := rs.newTask(f, o, p.ID)
	if t == nil {
		return nil
	}
	t.CallIdx, t.depth = p.CallIdx, p.depth
	return t
}

//go:norace
func rInSim() *RSched {
	if !Active {
		return nil
	}
	if rs := rsched; rs != nil && rs.cur != nil {
		return rs
	}
	return nil
}

//go:norace
func (t *RTask) SetCall(idx, depth int) { t.CallIdx, t.depth = idx, depth }

// RCurTask returns the running race-mode task.
func RCurTask() *RTask { return rcur() }

//go:norace
func (rs *RSched) Stats() (yields, switches, goCalls int, deadlock, overflow, overrun bool) {
	return rs.YieldN, rs.Switches, rs.GoCalls, rs.Deadlock, rs.overflow, rs.Overrun
}

// rGo starts a goroutine of the library as a task.
func rGo(rs *RSched, site int, f func()) {
	t := rs.goTask(site, f)
	if t == nil {
		f() // more tasks than the table holds: run inline; the run is marked as overflowed and gives no verdict
		return
	}
	rs.start(t)
	rs.yield(site, 1)
}

var _ sync.Locker

// ---- channels (see chan.go) ----

//go:norace
func (rs *RSched) chanFor(p unsafe.Pointer, create bool) *rChan {
	if rs.tabs == nil {
		if !create {
			return nil
		}
		rs.tabs = &rTables{}
	}
	i := rSlot(p)
	free := -1
	for n := 0; n < rTab; n++ {
		j := (i + n) & (rTab - 1)
		e := &rs.tabs.chans[j]
		if e.key == p {
			return e
		}
		if e.key == rTombstone {
			if free < 0 {
				free = j
			}
			continue
		}
		if e.key == nil {
			if free < 0 {
				free = j
			}
			break
		}
	}
	if !create {
		return nil
	}
	if free >= 0 {
		e := &rs.tabs.chans[free]
		*e = rChan{key: p}
		return e
	}
	rs.overflow = true
	rs.tabs.sparerChan = rChan{key: p}
	return &rs.tabs.sparerChan
}

//go:norace
func (rs *RSched) chYield(site int) {
	rs.cur.SyncOps++
	rs.yield(site, 1)
}

//go:norace
func (rs *RSched) chBlock(p unsafe.Pointer) (unsafe.Pointer, bool) {
	t := rs.cur
	t.blockedOn = p
	rs.block(t)
	t.blockedOn = nil
	if t.rv {
		t.rv = false
		return unsafe.Pointer(t), true
	}
	return unsafe.Pointer(t), false
}

//go:norace
func (rs *RSched) chWake(p unsafe.Pointer) { rs.wakeBlockedOn(p) }

//go:norace
func (rs *RSched) chClosed(p unsafe.Pointer) bool {
	c := rs.chanFor(p, false)
	return c != nil && c.closed
}

//go:norace
func (rs *RSched) chSetClosed(p unsafe.Pointer) { rs.chanFor(p, true).closed = true }

//go:norace
func (rs *RSched) chMeet(p unsafe.Pointer, send bool) (active, ok bool) {
	t := rs.cur
	c := rs.chanFor(p, true)
	mine, other := &c.sendq, &c.recvq
	if !send {
		mine, other = &c.recvq, &c.sendq
	}
	// a partner waiting on the other side?
	if w := other.pop(); w != nil {
		if t.queued {
			mine.remove(t)
		}
		if c.sendq.head == nil && c.recvq.head == nil && !c.closed {
			c.key = rTombstone
		}
		w.rv = true
		w.state = stRunnable
		rawWrite(w.wr) // out of band: w performs its half of the rendezvous, then waits to be scheduled
		return true, true
	}
	if !t.queued {
		mine.push(t)
	}
	return false, false
}

//go:norace
func (rs *RSched) chLeave(p unsafe.Pointer, send bool) {
	t := rs.cur
	c := rs.chanFor(p, false)
	if c == nil || !t.queued {
		return
	}
	if send {
		c.sendq.remove(t)
	} else {
		c.recvq.remove(t)
	}
}

//go:norace
func (rs *RSched) chPark(tok unsafe.Pointer) {
	t := (*RTask)(tok)
	rawRead(t.rd) // the scheduling wake-up; from here on t is the running task again
}
