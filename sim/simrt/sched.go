package simrt

import (
	"reflect"
	"runtime"
	"sync"
	"time"
	"unsafe"
)

// Active switches every hook on. With Active false the instrumented code behaves as the
// original: MapOrder returns the runtime's order, the other hooks return at once and the
// sync shims call the real primitives.
var Active bool

// ErrBudget is the value a hook panics with when a library call exceeds the step budget of
// its run (a runaway loop, typically caused by state another task corrupted). The harness
// recovers it; such a run yields no verdict on results.
var ErrBudget = budgetError{}

type budgetError struct{}

func (budgetError) Error() string { return "simulation step budget exceeded" }

// Access kinds.
const (
	Read  = 0
	Write = 1
)

// SchedDecision is one point at which the scheduler did something other than "the running
// task continues": a preemption, the choice of who starts, or of who runs after a task
// finished or blocked.
type SchedDecision struct {
	Kind  string `json:"kind"`            // "start" | "preempt" | "finish" | "block"
	Yield int    `json:"yield"`           // global yield index at which it was taken
	From  int    `json:"from"`            // task that was running (-1 for start)
	To    int    `json:"to"`              // task that runs next
	Site  int    `json:"site,omitempty"`  // yield site of From (preempt)
	Depth int    `json:"depth,omitempty"` // call depth of From inside the library (preempt)
	// a preemption is addressed task-locally: the Idx-th yield of class Class of task From
	// (class 0: any yield; class 1: yields at package-variable accesses and sync operations)
	Class int `json:"class,omitempty"`
	Idx   int `json:"idx,omitempty"`
}

// PKey addresses a yield of one task.
type PKey struct{ Task, Class, Idx int }

type Task struct {
	ID        int
	Fn        func()
	Order     *OrderSource
	wake      chan struct{}
	state     int // 0 runnable, 1 blocked, 2 done
	SyncOps   int // synchronisation operations performed so far
	Yields    int // all yields so far
	AccYields int // yields at package-variable accesses and sync operations
	depth     int
	CallIdx   int // set by the harness: index of the call the task is executing
	Panic     any
	lastSite  int
	Root      int // the root task this goroutine descends from (itself for a caller task)
	parent    int
	blockedOn unsafe.Pointer // the channel the task waits for
	rv        bool           // woken out of band as the partner of a channel rendezvous
}

const (
	stRunnable = 0
	stBlocked  = 1
	stDone     = 2
)

// Sched runs tasks as real goroutines released one at a time: the choice of who runs is
// the simulator's, taken at yield points (hooks) only.
type Sched struct {
	Tasks          []*Task
	cur            *Task
	YieldN         int
	Replay         bool
	Rng            *Rand
	PreemptAt      map[PKey]bool // generate mode: task-local yields at which to preempt
	PreemptGlobal  map[int]bool  // generate mode: global yield indices at which to preempt whoever runs (reaches goroutines the library starts itself)
	replayPre      map[PKey]int  // replay mode: task-local yield -> task to switch to
	replayOth      []SchedDecision
	othPos         int
	Decisions      []SchedDecision
	MaxYields      int // no preemptions after this many yields
	AbortYields    int // a library call that is still yielding after this many is unwound with ErrBudget
	Overrun        bool
	wseq           int
	live           []*Task // tasks that have not finished, in creation order
	baseGoroutines int
	UnownedSeen    bool
	GoCalls        int
	Chain          int // generate mode: how many more preemptions are followed by one of the task that got control
	arm            int
	Leftover       int // goroutines of the library still blocked when the run ended (every caller task had finished)
	chans          map[unsafe.Pointer]*simChan
	OnStep         func(ran *Task, reason string) // monitors; called by the runner before every hand-off and at task end
	done           chan struct{}
	Deadlock       bool
	Switches       int  // context switches taken strictly inside a call (preemptions)
	Frozen         bool // no more preemptions (after a violation was seen, or the cap was hit)
	Stalled        bool
	mutexes        map[any]*simMutex
	onces          map[*sync.Once]*simOnce
	wgs            map[*sync.WaitGroup]*simWG
	SwitchSeq      []uint64 // (task,site) of every preemption, for the interleaving hash
}

var sched *Sched

func NewSched(rng *Rand) *Sched {
	return &Sched{Rng: rng, PreemptAt: map[PKey]bool{}, PreemptGlobal: map[int]bool{}, MaxYields: 5_000_000,
		chans: map[unsafe.Pointer]*simChan{}, mutexes: map[any]*simMutex{}, onces: map[*sync.Once]*simOnce{}, wgs: map[*sync.WaitGroup]*simWG{}}
}

// NewReplaySched builds a scheduler that follows an explicit decision list.
func NewReplaySched(ds []SchedDecision) *Sched {
	s := NewSched(nil)
	s.Replay = true
	s.replayPre = map[PKey]int{}
	for _, d := range ds {
		if d.Kind == "preempt" {
			s.replayPre[PKey{d.From, d.Class, d.Idx}] = d.To
		} else {
			s.replayOth = append(s.replayOth, d)
		}
	}
	return s
}

func (s *Sched) AddTask(fn func(), order *OrderSource) *Task {
	t := &Task{ID: len(s.Tasks), Fn: fn, Order: order, wake: make(chan struct{}, 1), parent: -1}
	t.Root = t.ID
	s.Tasks = append(s.Tasks, t)
	s.live = append(s.live, t)
	return t
}

func (s *Sched) runnable(except *Task) []*Task {
	var r []*Task
	live := s.live[:0]
	for _, t := range s.live {
		if t.state == stDone {
			continue
		}
		live = append(live, t)
		if t.state == stRunnable && t != except {
			r = append(r, t)
		}
	}
	s.live = live
	return r
}

// pickOther chooses the next task when the running one cannot continue (start, finish,
// block).
func (s *Sched) pickOther(kind string, from *Task) *Task {
	cands := s.runnable(from)
	if len(cands) == 0 {
		return nil
	}
	var to *Task
	if s.Replay {
		if s.othPos < len(s.replayOth) {
			d := s.replayOth[s.othPos]
			s.othPos++
			for _, c := range cands {
				if c.ID == d.To {
					to = c
				}
			}
		}
		if to == nil {
			to = cands[0]
		}
	} else if s.Rng != nil && !s.Frozen {
		to = cands[s.Rng.Intn(len(cands))]
	} else {
		to = cands[0]
	}
	fid := -1
	if from != nil {
		fid = from.ID
	}
	s.Decisions = append(s.Decisions, SchedDecision{Kind: kind, Yield: s.YieldN, From: fid, To: to.ID})
	return to
}

// Run executes all tasks to completion under the scheduler. It returns false if the run
// stalled (a task blocked in something the simulator does not own).
// Unowned reports that more goroutines exist than the scheduler started: something (a
// dependency, the library through a construct the instrumenter did not rewrite) runs
// concurrently with the simulation, so its interleaving is not the simulator's choice.
func (s *Sched) Unowned() bool {
	return tooManyGoroutines(s.baseGoroutines + len(s.Tasks) + 2)
}

// tooManyGoroutines: runtime.NumGoroutine reads several counters without a lock and can be
// off by a batch of free goroutine descriptors for a moment, so one sample above the limit
// proves nothing; five samples in a row, a little apart, do.
//
//go:norace
func tooManyGoroutines(limit int) bool {
	for i := 0; i < 5; i++ {
		if runtime.NumGoroutine() <= limit {
			return false
		}
		time.Sleep(200 * time.Microsecond)
	}
	return true
}

func (s *Sched) Run(watchdog time.Duration) bool {
	s.baseGoroutines = runtime.NumGoroutine()
	sched = s
	s.done = make(chan struct{}, 1)
	for _, t := range s.Tasks {
		s.startGoroutine(t)
	}
	first := s.pickOther("start", nil)
	if first == nil {
		sched = nil
		return true
	}
	s.cur = first
	first.wake <- struct{}{}
	ok := true
	select {
	case <-s.done:
	case <-time.After(watchdog):
		s.Stalled = true
		ok = false
	}
	sched = nil
	return ok
}

func (s *Sched) startGoroutine(t *Task) {
	go func() {
		<-t.wake
		func() {
			defer func() {
				if r := recover(); r != nil {
					t.Panic = r
				}
			}()
			t.Fn()
		}()
		t.state = stDone
		s.wakeWaiters()
		if s.OnStep != nil {
			s.OnStep(t, "finish")
		}
		next := s.pickOther("finish", t)
		if next == nil {
			s.endOfRun()
			s.done <- struct{}{}
			return
		}
		s.cur = next
		next.wake <- struct{}{}
	}()
}

// wakeWaiters re-evaluates blocked tasks; primitives mark them runnable themselves, this
// is only a hook for future use.
func (s *Sched) wakeWaiters() {}

func (s *Sched) handoff(from, to *Task) {
	s.cur = to
	to.wake <- struct{}{}
	<-from.wake
}

// yield is a scheduling point of the running task. class 1 marks yields at
// package-variable accesses and synchronisation operations.
func (s *Sched) yield(site int, class int) {
	t := s.cur
	if t == nil {
		return
	}
	n := s.YieldN
	s.YieldN++
	k0 := PKey{t.ID, 0, t.Yields}
	k1 := PKey{t.ID, 1, t.AccYields}
	t.Yields++
	if class == 1 {
		t.AccYields++
	}
	t.lastSite = site
	if n&1023 == 1023 && s.Unowned() {
		// goroutines the scheduler did not start are running: this run is not a simulation
		s.UnownedSeen = true
		select {
		case s.done <- struct{}{}:
		default:
		}
		select {} // park for good; the harness stops using this process for lane A
	}
	if s.AbortYields > 0 && s.YieldN > s.AbortYields && t.depth > 0 {
		s.Overrun = true
		s.Frozen = true
		panic(ErrBudget)
	}
	if s.Frozen {
		return
	}
	if s.YieldN > s.MaxYields {
		s.Frozen = true
		return
	}
	var to *Task
	var key PKey
	if s.Replay {
		id, ok := s.replayPre[k0]
		key = k0
		if !ok && class == 1 {
			id, ok = s.replayPre[k1]
			key = k1
		}
		if ok {
			for _, c := range s.runnable(t) {
				if c.ID == id {
					to = c
				}
			}
		}
	} else {
		hit := false
		if s.PreemptAt[k0] {
			hit, key = true, k0
		} else if class == 1 && s.PreemptAt[k1] {
			hit, key = true, k1
		} else if s.PreemptGlobal[n] {
			hit, key = true, k0
		}
		// chained preemptions: after a switch, the task that got control is itself preempted a
		// few synchronisation operations / shared-state accesses later - the fine-grained
		// back-and-forth around critical sections in which check-then-act bugs show
		if class == 1 && s.arm > 0 {
			s.arm--
			if s.arm == 0 && !hit {
				hit, key = true, k1
			}
		}
		if hit {
			cands := s.runnable(t)
			if len(cands) > 0 {
				to = cands[s.Rng.Intn(len(cands))]
			}
		}
	}
	if to == nil {
		return
	}
	if !s.Replay && s.Chain > 0 {
		s.Chain--
		s.arm = 1 + s.Rng.Intn(3)
	}
	s.Decisions = append(s.Decisions, SchedDecision{Kind: "preempt", Yield: n, From: t.ID, To: to.ID, Site: site, Depth: t.depth, Class: key.Class, Idx: key.Idx})
	s.SwitchSeq = append(s.SwitchSeq, uint64(t.ID)<<32|uint64(uint32(site)))
	if t.depth > 0 {
		s.Switches++
	}
	if s.OnStep != nil {
		s.OnStep(t, "preempt")
	}
	s.handoff(t, to)
}

// block parks the running task until some primitive marks it runnable and a scheduler
// decision selects it again.
func (s *Sched) block(t *Task) {
	t.state = stBlocked
	if s.OnStep != nil {
		s.OnStep(t, "block")
	}
	next := s.pickOther("block", t)
	if next == nil {
		// nobody runnable: the run is over. Unfinished caller tasks mean a deadlock among
		// simulated primitives; goroutines of the library that are still blocked (workers of a
		// pool waiting for work) stay behind
		s.endOfRun()
		s.done <- struct{}{}
		<-t.wake // never returns; the goroutine stays behind with the run
		return
	}
	s.handoff(t, next)
}

func (s *Sched) endOfRun() {
	for _, o := range s.Tasks {
		if o.state != stDone {
			if o.parent < 0 {
				s.Deadlock = true
			} else {
				s.Leftover++
			}
		}
	}
}

// ---- channels (see chan.go) ----

type simChan struct {
	closed       bool
	sendq, recvq []*Task
}

func (s *Sched) chanFor(p unsafe.Pointer) *simChan {
	c := s.chans[p]
	if c == nil {
		c = &simChan{}
		s.chans[p] = c
	}
	return c
}

func (s *Sched) chYield(site int) {
	s.cur.SyncOps++
	s.yield(site, 1)
}

func (s *Sched) chBlock(p unsafe.Pointer) (unsafe.Pointer, bool) {
	t := s.cur
	t.blockedOn = p
	s.block(t)
	t.blockedOn = nil
	if t.rv {
		t.rv = false
		return unsafe.Pointer(t), true
	}
	return unsafe.Pointer(t), false
}

func (s *Sched) chWake(p unsafe.Pointer) {
	for _, t := range s.live {
		if t.state == stBlocked && t.blockedOn == p {
			t.state = stRunnable // it re-checks its condition when it runs
		}
	}
}

func (s *Sched) chClosed(p unsafe.Pointer) bool {
	c := s.chans[p]
	return c != nil && c.closed
}

func (s *Sched) chSetClosed(p unsafe.Pointer) { s.chanFor(p).closed = true }

func (s *Sched) chMeet(p unsafe.Pointer, send bool) (active, ok bool) {
	t := s.cur
	c := s.chanFor(p)
	if send && len(c.recvq) > 0 || !send && len(c.sendq) > 0 {
		var w *Task
		if send {
			w, c.recvq = c.recvq[0], c.recvq[1:]
		} else {
			w, c.sendq = c.sendq[0], c.sendq[1:]
		}
		w.rv = true
		w.state = stRunnable
		w.wake <- struct{}{} // out of band: w performs its half of the rendezvous, then waits to be scheduled
		return true, true
	}
	q := &c.sendq
	if !send {
		q = &c.recvq
	}
	for _, x := range *q {
		if x == t {
			return false, false
		}
	}
	*q = append(*q, t)
	return false, false
}

func (s *Sched) chLeave(p unsafe.Pointer, send bool) {
	t := s.cur
	c := s.chans[p]
	if c == nil {
		return
	}
	q := &c.sendq
	if !send {
		q = &c.recvq
	}
	for i, x := range *q {
		if x == t {
			*q = append((*q)[:i], (*q)[i+1:]...)
			return
		}
	}
}

func (s *Sched) chPark(tok unsafe.Pointer) {
	t := (*Task)(tok)
	<-t.wake // the scheduling wake-up; from here on t is the running task again
}

// ---- hooks called by instrumented code ----

// Enter marks a function entry: a yield point.
func Enter(site int) {
	if !Active {
		return
	}
	if rs := rInSim(); rs != nil {
		rs.yield(site, 0)
		return
	}
	if s := sched; s != nil && s.cur != nil {
		s.yield(site, 0)
		return
	}
	if stepBudget > 0 && !RealGo {
		Steps++
		if Steps > stepBudget {
			stepBudget = 0
			Aborted = true
			panic(ErrBudget)
		}
	}
}

// Step budget for runs outside the scheduler (C14/C16): a run that enters more than the
// given number of functions/loop iterations is unwound with ErrBudget.
var (
	Steps      int64
	stepBudget int64
	Aborted    bool
)

func SetStepBudget(n int64) { Steps, stepBudget, Aborted = 0, n, false }

// SyncMark counts a synchronisation operation without being a yield point (entry of a
// callback-shaped method: see the instrumenter).
func SyncMark(site int) {
	if !Active {
		return
	}
	if rs := rInSim(); rs != nil {
		rs.syncMark()
		return
	}
	if s := sched; s != nil && s.cur != nil {
		s.cur.SyncOps++
	}
}

// SyncOp marks a synchronisation operation the simulator does not model in detail
// (sync/atomic, sync.Pool, sync.Map): it is a yield point and counts as synchronisation.
func SyncOp(site int) {
	if !Active {
		return
	}
	if rs := rInSim(); rs != nil {
		rs.syncOp(site)
		return
	}
	if s := sched; s != nil && s.cur != nil {
		s.cur.SyncOps++
		s.yield(site, 1)
	}
}

// CallDepth lets the harness mark the running task as inside (1) / outside (0) a library call.
func CallDepth(d int) {
	if s := sched; s != nil && s.cur != nil {
		s.cur.depth = d
	}
}

// Child reports whether the task is a goroutine the library started (not a caller task).
func (t *Task) Child() bool { return t.parent >= 0 }

// CurTask returns the running task (nil outside the scheduler).
func CurTask() *Task {
	if s := sched; s != nil {
		return s.cur
	}
	return nil
}

// ---- sync shims ----

type simMutex struct {
	owner   *Task // writer
	readers int   // a read lock is not owned by a goroutine: RUnlock may come from another one
	waiters []*Task
}

func (s *Sched) mutexFor(key any) *simMutex {
	m := s.mutexes[key]
	if m == nil {
		m = &simMutex{}
		s.mutexes[key] = m
	}
	return m
}

func (s *Sched) lock(key any, site int, shared bool) {
	t := s.cur
	t.SyncOps++
	s.yield(site, 1)
	m := s.mutexFor(key)
	for {
		free := m.owner == nil && (shared || m.readers == 0)
		if free {
			break
		}
		m.waiters = append(m.waiters, t)
		s.block(t)
	}
	if shared {
		m.readers++
	} else {
		m.owner = t
	}
}

func (s *Sched) unlock(key any, site int, shared bool) {
	t := s.cur
	t.SyncOps++
	m := s.mutexFor(key)
	if shared {
		if m.readers > 0 {
			m.readers--
		}
	} else {
		m.owner = nil
	}
	for _, w := range m.waiters {
		if w.state == stBlocked {
			w.state = stRunnable
		}
	}
	m.waiters = nil
	s.yield(site, 1)
}

func inSim() *Sched {
	if !Active {
		return nil
	}
	if s := sched; s != nil && s.cur != nil {
		return s
	}
	return nil
}

func MutexLock(site int, m *sync.Mutex) {
	if rs := rInSim(); rs != nil {
		rs.lock(unsafe.Pointer(m), site, false)
		m.Lock() // uncontended: the race detector sees the edge the library's lock creates
		return
	}
	if s := inSim(); s != nil {
		s.lock(m, site, false)
		return
	}
	m.Lock()
}
func MutexUnlock(site int, m *sync.Mutex) {
	if rs := rInSim(); rs != nil {
		m.Unlock()
		rs.unlock(unsafe.Pointer(m), site, false)
		return
	}
	if s := inSim(); s != nil {
		s.unlock(m, site, false)
		return
	}
	m.Unlock()
}
func MutexTryLock(site int, m *sync.Mutex) bool {
	if rs := rInSim(); rs != nil {
		if rs.tryLock(unsafe.Pointer(m), site) {
			return m.TryLock()
		}
		return false
	}
	if s := inSim(); s != nil {
		sm := s.mutexFor(m)
		s.cur.SyncOps++
		if sm.owner == nil && sm.readers == 0 {
			sm.owner = s.cur
			return true
		}
		return false
	}
	return m.TryLock()
}
func RWTryLock(site int, m *sync.RWMutex) bool {
	if rs := rInSim(); rs != nil {
		if rs.tryLock(unsafe.Pointer(m), site) {
			return m.TryLock()
		}
		return false
	}
	if s := inSim(); s != nil {
		sm := s.mutexFor(m)
		s.cur.SyncOps++
		if sm.owner == nil && sm.readers == 0 {
			sm.owner = s.cur
			return true
		}
		return false
	}
	return m.TryLock()
}
func RWTryRLock(site int, m *sync.RWMutex) bool {
	if rs := rInSim(); rs != nil {
		if rs.tryRLock(unsafe.Pointer(m), site) {
			return m.TryRLock()
		}
		return false
	}
	if s := inSim(); s != nil {
		sm := s.mutexFor(m)
		s.cur.SyncOps++
		if sm.owner == nil {
			sm.readers++
			return true
		}
		return false
	}
	return m.TryRLock()
}
func RWLock(site int, m *sync.RWMutex) {
	if rs := rInSim(); rs != nil {
		rs.lock(unsafe.Pointer(m), site, false)
		m.Lock()
		return
	}
	if s := inSim(); s != nil {
		s.lock(m, site, false)
		return
	}
	m.Lock()
}
func RWUnlock(site int, m *sync.RWMutex) {
	if rs := rInSim(); rs != nil {
		m.Unlock()
		rs.unlock(unsafe.Pointer(m), site, false)
		return
	}
	if s := inSim(); s != nil {
		s.unlock(m, site, false)
		return
	}
	m.Unlock()
}
func RWRLock(site int, m *sync.RWMutex) {
	if rs := rInSim(); rs != nil {
		rs.lock(unsafe.Pointer(m), site, true)
		m.RLock()
		return
	}
	if s := inSim(); s != nil {
		s.lock(m, site, true)
		return
	}
	m.RLock()
}
func RWRUnlock(site int, m *sync.RWMutex) {
	if rs := rInSim(); rs != nil {
		m.RUnlock()
		rs.unlock(unsafe.Pointer(m), site, true)
		return
	}
	if s := inSim(); s != nil {
		s.unlock(m, site, true)
		return
	}
	m.RUnlock()
}

type simOnce struct {
	state   int // 0 new, 1 running, 2 done
	runner  *Task
	waiters []*Task
}

func OnceDo(site int, o *sync.Once, f func()) {
	if rs := rInSim(); rs != nil {
		if rs.onceEnter(unsafe.Pointer(o), site) {
			defer rs.onceLeave(unsafe.Pointer(o))
		}
		o.Do(f) // the real Once decides (and gives the race detector its edge)
		return
	}
	s := inSim()
	if s == nil {
		if Active {
			// single-task simulation: run at most once, inline
			o.Do(f)
			return
		}
		o.Do(f)
		return
	}
	t := s.cur
	t.SyncOps++
	s.yield(site, 1)
	so := s.onces[o]
	if so == nil {
		so = &simOnce{}
		s.onces[o] = so
	}
	for so.state == 1 && so.runner != t {
		so.waiters = append(so.waiters, t)
		s.block(t)
	}
	if so.state == 2 {
		return
	}
	if so.state == 1 && so.runner == t {
		panic("sync: Once.Do called recursively (simulated deadlock)")
	}
	so.state, so.runner = 1, t
	defer func() {
		so.state = 2
		for _, w := range so.waiters {
			if w.state == stBlocked {
				w.state = stRunnable
			}
		}
		so.waiters = nil
	}()
	// The real Once is used too, so that state kept across runs (package-level Once)
	// behaves as in production: f runs once per process.
	o.Do(f)
}

type simWG struct {
	n       int
	waiters []*Task
}

func (s *Sched) wgFor(w *sync.WaitGroup) *simWG {
	g := s.wgs[w]
	if g == nil {
		g = &simWG{}
		s.wgs[w] = g
	}
	return g
}

func WGAdd(site int, w *sync.WaitGroup, n int) {
	if rs := rInSim(); rs != nil {
		w.Add(n)
		rs.wgAdd(unsafe.Pointer(w), site, n)
		return
	}
	if s := inSim(); s != nil {
		g := s.wgFor(w)
		g.n += n
		s.cur.SyncOps++
		if g.n == 0 {
			for _, x := range g.waiters {
				if x.state == stBlocked {
					x.state = stRunnable
				}
			}
			g.waiters = nil
		}
		s.yield(site, 1)
		return
	}
	if Active && !RealGo {
		return // single-task simulation: Go runs inline, nothing to wait for
	}
	w.Add(n)
}
func WGDone(site int, w *sync.WaitGroup) { WGAddDone(site, w) }
func WGAddDone(site int, w *sync.WaitGroup) {
	if rs := rInSim(); rs != nil {
		w.Done()
		rs.wgAdd(unsafe.Pointer(w), site, -1)
		return
	}
	if s := inSim(); s != nil {
		WGAdd(site, w, -1)
		return
	}
	if Active && !RealGo {
		return
	}
	w.Done()
}
func WGWait(site int, w *sync.WaitGroup) {
	if rs := rInSim(); rs != nil {
		rs.wgWait(unsafe.Pointer(w), site)
		w.Wait() // the real counter is zero by now
		return
	}
	if s := inSim(); s != nil {
		t := s.cur
		t.SyncOps++
		s.yield(site, 1)
		g := s.wgFor(w)
		for g.n > 0 {
			g.waiters = append(g.waiters, t)
			s.block(t)
		}
		return
	}
	if Active && !RealGo {
		return
	}
	w.Wait()
}

// Go replaces the go statement. Under the scheduler the function becomes a new task; in a
// single-task simulation it runs inline (a legal schedule: the child runs to completion at
// once); with the simulator inactive it is a real goroutine.
func Go(site int, f func()) {
	if rs := rInSim(); rs != nil {
		rGo(rs, site, f)
		return
	}
	if s := inSim(); s != nil {
		p := s.cur
		p.SyncOps++
		s.GoCalls++
		t := &Task{ID: len(s.Tasks), Fn: f, Order: p.Order, wake: make(chan struct{}, 1), parent: p.ID, CallIdx: p.CallIdx, depth: p.depth, SyncOps: 1, Root: p.Root}
		s.Tasks = append(s.Tasks, t)
		s.live = append(s.live, t)
		s.startGoroutine(t)
		s.yield(site, 1)
		return
	}
	if Active && !RealGo {
		f()
		return
	}
	go f()
}

// Bind0 makes the closure that stands for a method value of a sync primitive.
func Bind0[T any](shim func(int, *T), site int, r *T) func() { return func() { shim(site, r) } }

// LockerLock / LockerUnlock replace Lock/Unlock calls on a sync.Locker, DynLock those on any
// other interface value: the shim is chosen by the dynamic type.
func LockerLock(site int, l sync.Locker)   { DynLock(site, l, "Lock") }
func LockerUnlock(site int, l sync.Locker) { DynLock(site, l, "Unlock") }

// ownLockers: named types of the library that declare lock methods themselves.
var ownLockers = map[string]bool{}

func RegisterOwnLocker(name string) { ownLockers[name] = true }

// DynBind stands for a method value taken from an interface value (unlock := l.Unlock).
func DynBind(site int, l any, method string) func() {
	return func() { DynLock(site, l, method) }
}

func DynLock(site int, l any, method string) {
	switch m := l.(type) {
	case *sync.Mutex:
		if method == "Lock" {
			MutexLock(site, m)
		} else {
			MutexUnlock(site, m)
		}
		return
	case *sync.RWMutex:
		switch method {
		case "Lock":
			RWLock(site, m)
		case "Unlock":
			RWUnlock(site, m)
		case "RLock":
			RWRLock(site, m)
		case "RUnlock":
			RWRUnlock(site, m)
		}
		return
	}
	rv := reflect.ValueOf(l)
	t := rv.Type()
	if t.Kind() == reflect.Ptr && t.Elem().PkgPath() == "sync" && t.Elem().Name() == "rlocker" {
		// the value of (*RWMutex).RLocker(): Lock/Unlock are RLock/RUnlock of the mutex behind it
		rw := (*sync.RWMutex)(rv.UnsafePointer())
		if method == "Lock" {
			RWRLock(site, rw)
		} else {
			RWRUnlock(site, rw)
		}
		return
	}
	et := t
	for et.Kind() == reflect.Ptr {
		et = et.Elem()
	}
	if !ownLockers[et.PkgPath()+"."+et.Name()] {
		// the method is promoted from an embedded primitive: operate on that primitive, as the
		// statically resolved calls on the same struct do
		if p := embeddedPrimitive(rv, method, 0); p != nil {
			DynLock(site, p, method)
			return
		}
	}
	// a lock type of its own: its methods are library code (instrumented) or foreign code
	SyncOp(site)
	switch method {
	case "Lock":
		l.(interface{ Lock() }).Lock()
	case "Unlock":
		l.(interface{ Unlock() }).Unlock()
	case "RLock":
		l.(interface{ RLock() }).RLock()
	case "RUnlock":
		l.(interface{ RUnlock() }).RUnlock()
	}
}

// embeddedPrimitive finds the sync.Mutex / sync.RWMutex embedded (at the shallowest depth,
// as method promotion does) in the struct v is or points to, and returns a pointer to it.
func embeddedPrimitive(v reflect.Value, method string, depth int) any {
	for v.Kind() == reflect.Ptr || v.Kind() == reflect.Interface {
		if v.IsNil() {
			return nil
		}
		v = v.Elem()
	}
	if v.Kind() != reflect.Struct || depth > 4 {
		return nil
	}
	var next []reflect.Value
	for i := 0; i < v.NumField(); i++ {
		f := v.Type().Field(i)
		if !f.Anonymous {
			continue
		}
		fv := v.Field(i)
		ft := f.Type
		ptr := ft.Kind() == reflect.Ptr
		if ptr {
			ft = ft.Elem()
		}
		if ft.PkgPath() == "sync" && (ft.Name() == "Mutex" || (ft.Name() == "RWMutex")) {
			if ft.Name() == "Mutex" && (method == "RLock" || method == "RUnlock") {
				continue
			}
			var p unsafe.Pointer
			if ptr {
				if fv.IsNil() {
					return nil
				}
				p = fv.UnsafePointer()
			} else if fv.CanAddr() {
				p = unsafe.Pointer(fv.UnsafeAddr())
			} else {
				return nil
			}
			if ft.Name() == "Mutex" {
				return (*sync.Mutex)(p)
			}
			return (*sync.RWMutex)(p)
		}
		next = append(next, fv)
	}
	for _, fv := range next {
		if p := embeddedPrimitive(fv, method, depth+1); p != nil {
			return p
		}
	}
	return nil
}

// shimOnces: the sync.Once values hidden inside closures made by OnceFunc/OnceValue(s).
// Those created before the snapshot (package initialisers) are reset with the package state.
var shimOnces []*sync.Once
var shimFuncPtrs = map[uintptr]bool{}

func newShimOnce() *sync.Once {
	o := &sync.Once{}
	if !Active {
		// created by a package initialiser: part of the package state that is reset between
		// cases. (One created while a simulation runs belongs to the call that made it; and
		// tasks must not write simulator globals - in lane R the race detector would, rightly,
		// report that.)
		shimOnces = append(shimOnces, o)
	}
	return o
}

// OnceFunc, OnceValue, OnceValues replace the sync functions of the same name, with the
// same behaviour when f panics: the first call panics with f's value and so does every
// later call.
func onceGuard(f func()) (g func(), check func()) {
	var valid bool
	var p any
	g = func() {
		defer func() {
			p = recover()
			if !valid {
				panic(p)
			}
		}()
		f()
		valid = true
	}
	return g, func() {
		if !valid {
			panic(p)
		}
	}
}

func OnceFunc(site int, f func()) func() {
	o := newShimOnce()
	g, check := onceGuard(f)
	r := func() { OnceDo(site, o, g); check() }
	noteShimFunc(r)
	return r
}
func OnceValue[T any](site int, f func() T) func() T {
	o := newShimOnce()
	var v T
	g, check := onceGuard(func() { v = f() })
	r := func() T { OnceDo(site, o, g); check(); return v }
	noteShimFunc(r)
	return r
}
func OnceValues[T1, T2 any](site int, f func() (T1, T2)) func() (T1, T2) {
	o := newShimOnce()
	var v1 T1
	var v2 T2
	g, check := onceGuard(func() { v1, v2 = f() })
	r := func() (T1, T2) { OnceDo(site, o, g); check(); return v1, v2 }
	noteShimFunc(r)
	return r
}

// ---- registration of package-level state (generated code calls this from init) ----

type Global struct {
	Name string
	Ptr  any
}

var Globals []Global

func RegisterGlobals(pkg string, gs []Global) {
	for _, g := range gs {
		Globals = append(Globals, Global{Name: pkg + "." + g.Name, Ptr: g.Ptr})
	}
}
