package simrt

import (
	"reflect"
	"sort"
)

// Vector-clock access monitor.
//
// Memory is addressed as (variable id, component): component 0 is the whole variable, any
// other value is the address of a first-level component of it (an array/slice element, a
// struct field) or, for locals shared with library goroutines, the address of the variable or
// element itself. Two accesses conflict if they name the same variable and the same component,
// or one of them names the whole variable. That is what lets a striped cache (one lock per
// shard of a package-level array) pass while a lock taken on a copy does not.

type cellKey struct {
	v    int
	sub  uintptr
	inst int // locals only: (root task, call) of the accessing goroutine - an instance of a local
	// variable belongs to one invocation, and freed addresses are reused by later ones
}

type cell struct {
	hasW                      bool
	wSeq, wTask, wSite, wCall int
	wClock                    uint32
	reads                     map[int]readRec
}

type readRec struct {
	clock      uint32
	site, call int
}

// pendRead: a read of a package variable mentioned during the current call (see readGlobal).
type pendRead struct {
	clock      uint32 // the task's clock at the mention
	site, call int
	covered    map[int]bool // sequence numbers of writes this read is ordered before
}

func hb(clock uint32, task int, vc []uint32) bool { return task < len(vc) && clock <= vc[task] }

func ptrOf(p any) uintptr {
	if p == nil {
		return 0
	}
	v := reflect.ValueOf(p)
	if v.Kind() != reflect.Ptr || v.IsNil() {
		return 0
	}
	return v.Pointer()
}

func (s *Sched) cellFor(k cellKey) *cell {
	c := s.cells[k]
	if c == nil {
		c = &cell{reads: map[int]readRec{}}
		s.cells[k] = c
		s.subsOf[k.v] = append(s.subsOf[k.v], k.sub)
	}
	return c
}

// overlapping returns the keys of existing cells that conflict with k. exact: only k itself
// (locals are always addressed by exact address).
func (s *Sched) overlapping(k cellKey, exact bool) []cellKey {
	if exact {
		if _, ok := s.cells[k]; ok {
			return []cellKey{k}
		}
		return nil
	}
	var out []cellKey
	if k.sub == 0 {
		for _, sub := range s.subsOf[k.v] {
			out = append(out, cellKey{v: k.v, sub: sub})
		}
		return out
	}
	if _, ok := s.cells[k]; ok {
		out = append(out, k)
	}
	if _, ok := s.cells[cellKey{v: k.v}]; ok {
		out = append(out, cellKey{v: k.v})
	}
	return out
}

func keysOverlap(a, b cellKey) bool {
	return a.v == b.v && (a.sub == b.sub || a.sub == 0 || b.sub == 0)
}

// write records a write by t at the given clock and reports conflicts with earlier accesses.
func (s *Sched) write(t *Task, k cellKey, exact bool, clock uint32, site int) {
	for _, ok := range s.overlapping(k, exact) {
		c := s.cells[ok]
		if c.hasW && c.wTask != t.ID && !hb(c.wClock, c.wTask, t.vc) {
			s.Races = append(s.Races, Race{Var: k.v, Kind: "W-W", TaskA: c.wTask, TaskB: t.ID, SiteA: c.wSite, SiteB: site, CallA: c.wCall, CallB: t.CallIdx})
		}
		ids := make([]int, 0, len(c.reads))
		for rt := range c.reads {
			ids = append(ids, rt)
		}
		sort.Ints(ids)
		for _, rt := range ids {
			rr := c.reads[rt]
			if rt != t.ID && !hb(rr.clock, rt, t.vc) {
				s.Races = append(s.Races, Race{Var: k.v, Kind: "R-W", TaskA: rt, TaskB: t.ID, SiteA: rr.site, SiteB: site, CallA: rr.call, CallB: t.CallIdx})
			}
		}
	}
	c := s.cellFor(k)
	s.wseq++
	c.hasW = true
	c.wSeq, c.wTask, c.wSite, c.wCall, c.wClock = s.wseq, t.ID, site, t.CallIdx, clock
	c.reads = map[int]readRec{}
	// in-flight reads of other tasks that are ordered before this write
	if !exact {
		for _, o := range s.Tasks {
			if o == t || o.pending == nil {
				continue
			}
			for pk, pr := range o.pending {
				if keysOverlap(pk, k) && hb(pr.clock, o.ID, t.vc) {
					if pr.covered == nil {
						pr.covered = map[int]bool{}
					}
					pr.covered[c.wSeq] = true
				}
			}
		}
	}
}

// readNow records a read and checks it at once (locals).
func (s *Sched) readNow(t *Task, k cellKey, site int) {
	for _, ok := range s.overlapping(k, true) {
		c := s.cells[ok]
		if c.hasW && c.wTask != t.ID && !hb(c.wClock, c.wTask, t.vc) {
			s.Races = append(s.Races, Race{Var: k.v, Kind: "W-R", TaskA: c.wTask, TaskB: t.ID, SiteA: c.wSite, SiteB: site, CallA: c.wCall, CallB: t.CallIdx})
		}
	}
	s.cellFor(k).reads[t.ID] = readRec{clock: t.vc[t.ID], site: site, call: t.CallIdx}
}

// readGlobal notes that the running task mentioned a package variable (or a component of it)
// for reading. The mention may precede the lock acquisition that orders the actual data
// access (a mutex stored inside the variable it protects, a method that locks inside), so
// the read is neither checked nor published now: CommitReads does both when the call ends.
func (s *Sched) readGlobal(t *Task, k cellKey, site int) {
	if t.pending == nil {
		t.pending = map[cellKey]*pendRead{}
	}
	if _, ok := t.pending[k]; !ok {
		t.pending[k] = &pendRead{site: site, call: t.CallIdx, clock: t.vc[t.ID]}
	}
}

// CommitReads checks the pending reads of t against the writes recorded so far and publishes
// them for later writers. A read is a race with a write only if it can be ordered neither
// before the write (judged when the write happened: covered) nor after it (judged now, with
// the happens-before knowledge t has at the end of the call). Published reads carry the clock
// t had when the call began - the earliest moment they can have happened.
func (s *Sched) CommitReads(t *Task, startClock uint32) {
	if t.noVC {
		t.pending = nil
		return
	}
	if startClock == 0 {
		startClock = 1
	}
	keys := make([]cellKey, 0, len(t.pending))
	for k := range t.pending {
		keys = append(keys, k)
	}
	sort.Slice(keys, func(i, j int) bool {
		if keys[i].v != keys[j].v {
			return keys[i].v < keys[j].v
		}
		return keys[i].sub < keys[j].sub
	})
	for _, k := range keys {
		pr := t.pending[k]
		for _, ok := range s.overlapping(k, false) {
			c := s.cells[ok]
			if c.hasW && c.wTask != t.ID && !pr.covered[c.wSeq] && !hb(c.wClock, c.wTask, t.vc) {
				s.Races = append(s.Races, Race{Var: k.v, Kind: "W-R", TaskA: c.wTask, TaskB: t.ID, SiteA: c.wSite, SiteB: pr.site, CallA: c.wCall, CallB: pr.call})
			}
		}
		c := s.cellFor(k)
		if old, ok := c.reads[t.ID]; !ok || old.clock > startClock {
			c.reads[t.ID] = readRec{clock: startClock, site: pr.site, call: pr.call}
		}
	}
	t.pending = nil
}

// ---- hooks ----

// Access marks a statement that touches a package-level variable as a whole.
func Access(site, v, kind int) { AccessC(site, v, kind, nil) }

// AccessC marks a statement that touches a first-level component of a package-level
// variable (p is the component's address; nil = the whole variable). kind: bit 0 write,
// bit 1 "inside a statement that performs an atomic / sync.Map / sync.Pool operation".
func AccessC(site, v, kind int, p any) {
	if !Active {
		return
	}
	s := sched
	if s == nil || s.cur == nil {
		return
	}
	t := s.cur
	s.yield(site, 1)
	if t.noVC {
		return
	}
	k := cellKey{v: v, sub: ptrOf(p)}
	if kind&2 != 0 {
		t.touch(globalSyncToken{})
		t.acquire(s.globalSync)
		if kind&1 == Write {
			s.write(t, k, false, t.vc[t.ID], site)
		} else {
			s.readGlobal(t, k, site)
		}
		t.release(&s.globalSync)
		return
	}
	if kind&1 == Write {
		s.write(t, k, false, t.vc[t.ID], site)
		return
	}
	s.readGlobal(t, k, site)
}

// AccessL marks a statement that touches a local variable shared with goroutines the
// library started (captured by a `go func(){...}` closure); p is the address written or read.
func AccessL(site, v, kind int, p any) {
	if !Active {
		return
	}
	s := sched
	if s == nil || s.cur == nil {
		return
	}
	t := s.cur
	s.yield(site, 1)
	if t.noVC {
		return
	}
	k := cellKey{v, ptrOf(p), (t.Root+1)<<24 | (t.CallIdx & 0xffffff)}
	if kind&2 != 0 {
		t.acquire(s.globalSync)
		defer t.release(&s.globalSync)
	}
	if kind&1 == Write {
		s.write(t, k, true, t.vc[t.ID], site)
		return
	}
	s.readNow(t, k, site)
}

// SyntheticWrite records a write to (a component of) package variable v by task t that was
// observed through a changed state hash rather than through an instrumented statement (a
// write through an alias, a pointer, a method, a copy that shares a map). clock is the task's
// clock at the START of the step in which the change was seen - the earliest moment the write
// can have happened - so that a write made inside a critical section is never reported.
func (s *Sched) SyntheticWrite(t *Task, v int, comp uintptr, clock uint32, site int) {
	s.write(t, cellKey{v: v, sub: comp}, false, clock, site)
}
