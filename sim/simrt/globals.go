package simrt

import (
	"reflect"
	"sync"
	"unsafe"
)

// Package-level state of the instrumented packages is registered by generated init
// functions (Globals). The harness snapshots it once at process start and puts the
// snapshot back before every case: each case then starts from the state a fresh process
// would have, so first-use windows (lazy initialisation, cold caches) are open in every
// case and a case's outcome does not depend on which cases the worker ran before.

var snapshot []reflect.Value

func accessible(v reflect.Value) reflect.Value {
	if v.CanInterface() || !v.CanAddr() {
		return v
	}
	return reflect.NewAt(v.Type(), unsafe.Pointer(v.UnsafeAddr())).Elem()
}

type ptrKey struct {
	p unsafe.Pointer
	t reflect.Type
}
type copier struct{ ptrs map[ptrKey]reflect.Value }

func (c *copier) copy(v reflect.Value) reflect.Value {
	switch v.Kind() {
	case reflect.Ptr:
		if v.IsNil() {
			return v
		}
		p := ptrKey{v.UnsafePointer(), v.Type()}
		if n, ok := c.ptrs[p]; ok {
			return n
		}
		if et := v.Type().Elem(); skipType(et) && et.PkgPath() != "sync" && et.PkgPath() != "sync/atomic" {
			// an object of a foreign type that synchronises itself (a *log.Logger, a
			// *strings.Replacer) or whose identity matters to its package (*time.Location): shared,
			// not copied
			return v
		}
		n := reflect.New(v.Type().Elem())
		c.ptrs[p] = n
		n.Elem().Set(c.copy(v.Elem()))
		return n
	case reflect.Slice:
		if v.IsNil() {
			return v
		}
		n := reflect.MakeSlice(v.Type(), v.Len(), v.Cap())
		for i := 0; i < v.Len(); i++ {
			n.Index(i).Set(c.copy(v.Index(i)))
		}
		return n
	case reflect.Map:
		if v.IsNil() {
			return v
		}
		n := reflect.MakeMapWithSize(v.Type(), v.Len())
		it := v.MapRange()
		for it.Next() {
			n.SetMapIndex(c.copy(it.Key()), c.copy(it.Value()))
		}
		return n
	case reflect.Struct:
		if skipType(v.Type()) {
			// sync and sync/atomic values: a bitwise copy. At snapshot time (process start)
			// they are in their initial state, typically zero: an unlocked mutex, an unused
			// Once, an empty sync.Map or Pool - restoring that resets them.
			n := reflect.New(v.Type()).Elem()
			n.Set(v)
			return n
		}
		if !v.CanAddr() {
			tmp := reflect.New(v.Type()).Elem()
			tmp.Set(v)
			v = tmp
		}
		n := reflect.New(v.Type()).Elem()
		for i := 0; i < v.NumField(); i++ {
			accessible(n.Field(i)).Set(c.copy(accessible(v.Field(i))))
		}
		return n
	case reflect.Array:
		n := reflect.New(v.Type()).Elem()
		for i := 0; i < v.Len(); i++ {
			n.Index(i).Set(c.copy(v.Index(i)))
		}
		return n
	case reflect.Interface:
		if v.IsNil() {
			return v
		}
		n := reflect.New(v.Type()).Elem()
		e := v.Elem()
		if e.Kind() == reflect.Ptr || e.Kind() == reflect.Map || e.Kind() == reflect.Slice {
			n.Set(c.copy(e))
		} else {
			n.Set(e)
		}
		return n
	}
	return v // scalars, strings, funcs, chans: shared/immutable or not copyable
}

// deepCopy returns a value that shares no mutable memory with v and is detached from the
// variable v may be a view of. One copier serves a whole snapshot or restore, so that two
// package variables pointing at the same object still do afterwards; a pointer to a package
// variable itself stays what it is (the variable is restored in place).
func deepCopy(c *copier, v reflect.Value) reflect.Value {
	n := reflect.New(v.Type()).Elem()
	n.Set(c.copy(v))
	return n
}

func newCopier() *copier {
	c := &copier{ptrs: map[ptrKey]reflect.Value{}}
	for _, g := range Globals {
		pv := reflect.ValueOf(g.Ptr)
		if pv.Kind() == reflect.Ptr && !pv.IsNil() {
			c.ptrs[ptrKey{pv.UnsafePointer(), pv.Type()}] = pv
		}
	}
	return c
}

// aliasScan looks for pointers into the interior of an object that is also reached by
// value (container/list's sentinel `root.next = &l.root`, a pointer to a struct field, to an
// array element): copying pointee by pointee would tear such structures apart.
type aliasScan struct {
	seen      map[ptrKey]bool
	ranges    [][2]uintptr // [start, end) of every allocated object reached
	varRanges [][2]uintptr // ... of the package variables themselves
	ptrs      []uintptr
	slices    []uintptr // data pointers of slices
	foreign   string    // a foreign self-synchronising object that points at library state
}

// pointsIntoLibrary: v (a field of a foreign object that is not copied) refers to a value of
// a library type - an io.Writer of the library inside a log.Logger, say.
func pointsIntoLibrary(v reflect.Value, depth int) bool {
	if depth > 3 || !v.IsValid() {
		return false
	}
	switch v.Kind() {
	case reflect.Interface, reflect.Ptr:
		if v.IsNil() {
			return false
		}
		e := v.Elem()
		t := e.Type()
		for t.Kind() == reflect.Ptr {
			t = t.Elem()
		}
		if OwnedPackages[t.PkgPath()] {
			return true
		}
		return pointsIntoLibrary(e, depth+1)
	case reflect.Struct:
		for i := 0; i < v.NumField(); i++ {
			if pointsIntoLibrary(accessible(v.Field(i)), depth+1) {
				return true
			}
		}
	case reflect.Slice:
		for i := 0; i < v.Len() && i < 64; i++ {
			if pointsIntoLibrary(v.Index(i), depth+1) {
				return true
			}
		}
	}
	return false
}

func (a *aliasScan) walk(v reflect.Value, depth int) {
	if depth > 64 || !v.IsValid() {
		return
	}
	switch v.Kind() {
	case reflect.Ptr:
		if v.IsNil() {
			return
		}
		if et := v.Type().Elem(); skipType(et) {
			if p := et.PkgPath(); p != "sync" && p != "sync/atomic" && a.foreign == "" && pointsIntoLibrary(v.Elem(), 0) {
				a.foreign = et.String()
			}
			return
		}
		k := ptrKey{v.UnsafePointer(), v.Type()}
		a.ptrs = append(a.ptrs, v.Pointer())
		if a.seen[k] {
			return
		}
		a.seen[k] = true
		if sz := v.Type().Elem().Size(); sz > 0 {
			a.ranges = append(a.ranges, [2]uintptr{v.Pointer(), v.Pointer() + sz})
		}
		a.walk(v.Elem(), depth+1)
	case reflect.Interface:
		if !v.IsNil() {
			a.walk(v.Elem(), depth+1)
		}
	case reflect.Slice:
		if v.IsNil() || v.Len() == 0 {
			return
		}
		if sz := v.Type().Elem().Size(); sz > 0 {
			a.ranges = append(a.ranges, [2]uintptr{v.Pointer(), v.Pointer() + sz*uintptr(v.Cap())})
		}
		a.slices = append(a.slices, v.Pointer())
		for i := 0; i < v.Len() && i < 4096; i++ {
			a.walk(v.Index(i), depth+1)
		}
	case reflect.Array:
		for i := 0; i < v.Len() && i < 4096; i++ {
			a.walk(v.Index(i), depth+1)
		}
	case reflect.Map:
		it := v.MapRange()
		for it.Next() {
			a.walk(it.Key(), depth+1)
			a.walk(it.Value(), depth+1)
		}
	case reflect.Struct:
		if skipType(v.Type()) {
			if p := v.Type().PkgPath(); p != "sync" && p != "sync/atomic" && a.foreign == "" && v.CanAddr() && pointsIntoLibrary(v, 0) {
				a.foreign = v.Type().String()
			}
			return
		}
		for i := 0; i < v.NumField(); i++ {
			a.walk(accessible(v.Field(i)), depth+1)
		}
	}
}

// sliceOfVariable reports a slice that is a view of a package variable's own memory
// (var view = table[:]): restored separately, the two would stop sharing.
func (a *aliasScan) sliceOfVariable() bool {
	for _, p := range a.slices {
		for _, r := range a.varRanges {
			if p >= r[0] && p < r[1] {
				return true
			}
		}
	}
	return false
}

// interior reports a pointer that points strictly inside an object (not at its start).
func (a *aliasScan) interior() bool {
	for _, p := range a.ptrs {
		for _, r := range a.ranges {
			if p > r[0] && p < r[1] {
				return true
			}
		}
	}
	return false
}

func noteShimFunc(f any) {
	if !Active { // see newShimOnce
		shimFuncPtrs[reflect.ValueOf(f).Pointer()] = true
	}
}

// RestoreDisabled is set when the package state contains something that cannot be put back
// (a non-nil function value that is not one of the simulator's own Once closures: state may
// hide in its closure). Restoring the rest would create a state no real process can reach,
// so nothing is restored and cases share the process state, as production code would.
var RestoreDisabled string

func hasOpaqueFunc(v reflect.Value, depth int) bool {
	if depth > 6 || !v.IsValid() {
		return false
	}
	switch v.Kind() {
	case reflect.Func:
		return !v.IsNil() && !shimFuncPtrs[v.Pointer()]
	case reflect.Ptr, reflect.Interface:
		if v.IsNil() {
			return false
		}
		return hasOpaqueFunc(v.Elem(), depth+1)
	case reflect.Struct:
		if skipType(v.Type()) {
			return false
		}
		for i := 0; i < v.NumField(); i++ {
			if hasOpaqueFunc(v.Field(i), depth+1) {
				return true
			}
		}
	}
	return false
}

// SnapshotGlobals records the current value of every registered package-level variable.
func SnapshotGlobals() {
	nOnceAtSnapshot = len(shimOnces)
	for _, g := range Globals {
		pv := reflect.ValueOf(g.Ptr)
		if pv.Kind() == reflect.Ptr && !pv.IsNil() && hasOpaqueFunc(pv.Elem(), 0) {
			RestoreDisabled = g.Name + " holds a function value whose closure may carry state"
		}
	}
	// interior pointers (also a pointer to the first field of an object that is reached by value
	// under another type: same address, caught by the type in the key)
	func() {
		defer func() { recover() }()
		sc := &aliasScan{seen: map[ptrKey]bool{}}
		for _, g := range Globals {
			pv := reflect.ValueOf(g.Ptr)
			if pv.Kind() == reflect.Ptr && !pv.IsNil() {
				sc.ranges = append(sc.ranges, [2]uintptr{pv.Pointer(), pv.Pointer() + pv.Type().Elem().Size()})
				sc.varRanges = append(sc.varRanges, [2]uintptr{pv.Pointer(), pv.Pointer() + pv.Type().Elem().Size()})
				sc.walk(pv.Elem(), 0)
			}
		}
		byAddr := map[uintptr]reflect.Type{}
		for k := range sc.seen {
			if t, ok := byAddr[uintptr(k.p)]; ok && t != k.t {
				RestoreDisabled = "package state contains two pointers of different types to one address (an object and its first field)"
			}
			byAddr[uintptr(k.p)] = k.t
		}
		if RestoreDisabled == "" && sc.interior() {
			RestoreDisabled = "package state contains a pointer into the interior of another object"
		}
		if RestoreDisabled == "" && sc.sliceOfVariable() {
			RestoreDisabled = "package state contains a slice that is a view of another package variable"
		}
		if RestoreDisabled == "" && sc.foreign != "" {
			RestoreDisabled = "package state contains a " + sc.foreign + " (an object of a foreign type that is shared, not copied) that refers to state of the library"
		}
	}()
	snapshot = make([]reflect.Value, len(Globals))
	c := newCopier()
	for i, g := range Globals {
		pv := reflect.ValueOf(g.Ptr)
		if pv.Kind() != reflect.Ptr || pv.IsNil() {
			continue
		}
		func() {
			defer func() { recover() }()
			snapshot[i] = deepCopy(c, pv.Elem())
		}()
	}
}

// RestoreGlobals puts the snapshot back (a fresh deep copy each time).
var nOnceAtSnapshot int

func RestoreGlobals() {
	if snapshot == nil || RestoreDisabled != "" {
		return
	}
	for _, o := range shimOnces[:nOnceAtSnapshot] {
		*o = sync.Once{}
	}
	c := newCopier()
	for i, g := range Globals {
		if !snapshot[i].IsValid() {
			continue
		}
		func() {
			defer func() { recover() }()
			reflect.ValueOf(g.Ptr).Elem().Set(deepCopy(c, snapshot[i]))
		}()
	}
}

// GlobalsHash hashes all registered package-level state.
func GlobalsHash() uint64 {
	var h uint64 = 1469598103934665603
	for _, g := range Globals {
		h = h*1099511628211 ^ DeepHash(g.Ptr)
	}
	return h
}

// GlobalHashes returns one hash per registered variable (to name the one that changed).
func GlobalHashes() []uint64 {
	out := make([]uint64, len(Globals))
	for i, g := range Globals {
		out[i] = DeepHash(g.Ptr)
	}
	return out
}
