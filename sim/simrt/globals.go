package simrt

import (
	"reflect"
	"unsafe"
)

// Package-level state of the instrumented packages is registered by generated init
// functions (Globals). The harness snapshots it once at process start and puts the
// snapshot back before every case: each case then starts from the state a fresh process
// would have, so first-use windows (lazy initialisation, cold caches) are open in every
// case and a case's outcome does not depend on which cases the worker ran before.

var snapshot []reflect.Value

func accessible(v reflect.Value) reflect.Value {
	if v.CanInterface() || !v.CanAddr() {
		return v
	}
	return reflect.NewAt(v.Type(), unsafe.Pointer(v.UnsafeAddr())).Elem()
}

type copier struct{ ptrs map[unsafe.Pointer]reflect.Value }

func (c *copier) copy(v reflect.Value) reflect.Value {
	switch v.Kind() {
	case reflect.Ptr:
		if v.IsNil() {
			return v
		}
		p := v.UnsafePointer()
		if n, ok := c.ptrs[p]; ok {
			return n
		}
		n := reflect.New(v.Type().Elem())
		c.ptrs[p] = n
		n.Elem().Set(c.copy(v.Elem()))
		return n
	case reflect.Slice:
		if v.IsNil() {
			return v
		}
		n := reflect.MakeSlice(v.Type(), v.Len(), v.Cap())
		for i := 0; i < v.Len(); i++ {
			n.Index(i).Set(c.copy(v.Index(i)))
		}
		return n
	case reflect.Map:
		if v.IsNil() {
			return v
		}
		n := reflect.MakeMapWithSize(v.Type(), v.Len())
		it := v.MapRange()
		for it.Next() {
			n.SetMapIndex(c.copy(it.Key()), c.copy(it.Value()))
		}
		return n
	case reflect.Struct:
		if skipType(v.Type()) {
			// sync and sync/atomic values: a bitwise copy. At snapshot time (process start)
			// they are in their initial state, typically zero: an unlocked mutex, an unused
			// Once, an empty sync.Map or Pool - restoring that resets them.
			n := reflect.New(v.Type()).Elem()
			n.Set(v)
			return n
		}
		if !v.CanAddr() {
			tmp := reflect.New(v.Type()).Elem()
			tmp.Set(v)
			v = tmp
		}
		n := reflect.New(v.Type()).Elem()
		for i := 0; i < v.NumField(); i++ {
			accessible(n.Field(i)).Set(c.copy(accessible(v.Field(i))))
		}
		return n
	case reflect.Array:
		n := reflect.New(v.Type()).Elem()
		for i := 0; i < v.Len(); i++ {
			n.Index(i).Set(c.copy(v.Index(i)))
		}
		return n
	case reflect.Interface:
		if v.IsNil() {
			return v
		}
		n := reflect.New(v.Type()).Elem()
		e := v.Elem()
		if e.Kind() == reflect.Ptr || e.Kind() == reflect.Map || e.Kind() == reflect.Slice {
			n.Set(c.copy(e))
		} else {
			n.Set(e)
		}
		return n
	}
	return v // scalars, strings, funcs, chans: shared/immutable or not copyable
}

// deepCopy returns a value that shares no mutable memory with v and is detached from the
// variable v may be a view of.
func deepCopy(v reflect.Value) reflect.Value {
	c := &copier{ptrs: map[unsafe.Pointer]reflect.Value{}}
	n := reflect.New(v.Type()).Elem()
	n.Set(c.copy(v))
	return n
}

// SnapshotGlobals records the current value of every registered package-level variable.
func SnapshotGlobals() {
	snapshot = make([]reflect.Value, len(Globals))
	for i, g := range Globals {
		pv := reflect.ValueOf(g.Ptr)
		if pv.Kind() != reflect.Ptr || pv.IsNil() {
			continue
		}
		func() {
			defer func() { recover() }()
			snapshot[i] = deepCopy(pv.Elem())
		}()
	}
}

// RestoreGlobals puts the snapshot back (a fresh deep copy each time).
func RestoreGlobals() {
	if snapshot == nil {
		return
	}
	for i, g := range Globals {
		if !snapshot[i].IsValid() {
			continue
		}
		func() {
			defer func() { recover() }()
			reflect.ValueOf(g.Ptr).Elem().Set(deepCopy(snapshot[i]))
		}()
	}
}

// GlobalsHash hashes all registered package-level state.
func GlobalsHash() uint64 {
	var h uint64 = 1469598103934665603
	for _, g := range Globals {
		h = h*1099511628211 ^ DeepHash(g.Ptr)
	}
	return h
}

// GlobalHashes returns one hash per registered variable (to name the one that changed).
func GlobalHashes() []uint64 {
	out := make([]uint64, len(Globals))
	for i, g := range Globals {
		out[i] = DeepHash(g.Ptr)
	}
	return out
}
