package simrt

import (
	"fmt"
	"hash/fnv"
	"math"
	"reflect"
	"sort"
	"strings"
	"unsafe"
)

func orderableType(k any) bool { return orderableRT(reflect.TypeOf(k)) }

func orderableRT(t reflect.Type) bool {
	if t == nil {
		return false
	}
	switch t.Kind() {
	case reflect.Bool, reflect.Int, reflect.Int8, reflect.Int16, reflect.Int32, reflect.Int64,
		reflect.Uint, reflect.Uint8, reflect.Uint16, reflect.Uint32, reflect.Uint64, reflect.Uintptr,
		reflect.Float32, reflect.Float64, reflect.Complex64, reflect.Complex128, reflect.String:
		return true
	case reflect.Array:
		return orderableRT(t.Elem())
	case reflect.Struct:
		for i := 0; i < t.NumField(); i++ {
			if !orderableRT(t.Field(i).Type) {
				return false
			}
		}
		return true
	}
	return false
}

func renderKey(k any) string { return fmt.Sprintf("%#v", k) }

// DeepHash returns a hash of everything reachable from v: pointers are followed (cycles cut),
// unexported fields are read, maps are hashed order-independently, floats by bit pattern.
// Values of types from package sync and sync/atomic are skipped (their internal state is
// not program state in the sense of the properties).
func DeepHash(v any) uint64 {
	h := &hasher{seen: map[visitKey]bool{}}
	h.w = fnv.New64a()
	h.value(reflect.ValueOf(v), 0)
	return h.w.Sum64()
}

type visitKey struct {
	p uintptr
	t reflect.Type
}

type hasher struct {
	w interface {
		Write([]byte) (int, error)
		Sum64() uint64
	}
	seen map[visitKey]bool
	buf  [9]byte
}

func (h *hasher) u64(tag byte, x uint64) {
	h.buf[0] = tag
	for i := 0; i < 8; i++ {
		h.buf[1+i] = byte(x >> (8 * i))
	}
	h.w.Write(h.buf[:])
}

func (h *hasher) str(s string) {
	h.u64('s', uint64(len(s)))
	h.w.Write([]byte(s))
}

func skipType(t reflect.Type) bool {
	p := t.PkgPath()
	if p == "sync" || p == "sync/atomic" || strings.HasPrefix(p, "internal/") {
		return true
	}
	if p == "time" && t.Name() == "Location" {
		return true // filled lazily by the time package under its own Once; identified by address
	}
	// a struct type defined outside the library that carries a sync primitive of its own
	// (strings.Replacer, a third-party client, ...) synchronises its internal state itself;
	// that state is not the library's and is not observed
	if p != "" && t.Kind() == reflect.Struct && !OwnedPackages[p] && len(OwnedPackages) > 0 {
		if v, ok := foreignSync[t]; ok {
			return v
		}
		has := false
		for i := 0; i < t.NumField(); i++ {
			ft := t.Field(i).Type
			for ft.Kind() == reflect.Ptr {
				ft = ft.Elem()
			}
			if fp := ft.PkgPath(); fp == "sync" || fp == "sync/atomic" {
				has = true
			}
		}
		foreignSync[t] = has
		return has
	}
	return false
}

// OwnedPackages: import paths of the instrumented (library) packages.
var OwnedPackages = map[string]bool{}
var foreignSync = map[reflect.Type]bool{}

func (h *hasher) value(v reflect.Value, depth int) {
	if !v.IsValid() {
		h.u64('0', 0)
		return
	}
	if depth > 200 {
		h.u64('D', 0)
		return
	}
	t := v.Type()
	if skipType(t) {
		h.u64('S', 0)
		return
	}
	switch v.Kind() {
	case reflect.Bool:
		if v.Bool() {
			h.u64('b', 1)
		} else {
			h.u64('b', 0)
		}
	case reflect.Int, reflect.Int8, reflect.Int16, reflect.Int32, reflect.Int64:
		h.u64('i', uint64(v.Int()))
	case reflect.Uint, reflect.Uint8, reflect.Uint16, reflect.Uint32, reflect.Uint64, reflect.Uintptr:
		h.u64('u', v.Uint())
	case reflect.Float32, reflect.Float64:
		h.u64('f', math.Float64bits(v.Float()))
	case reflect.Complex64, reflect.Complex128:
		c := v.Complex()
		h.u64('c', math.Float64bits(real(c)))
		h.u64('c', math.Float64bits(imag(c)))
	case reflect.String:
		h.str(v.String())
	case reflect.Ptr:
		if v.IsNil() {
			h.u64('n', 0)
			return
		}
		k := visitKey{v.Pointer(), t}
		if h.seen[k] {
			h.u64('C', 0)
			return
		}
		h.seen[k] = true
		h.u64('p', 1)
		h.value(v.Elem(), depth+1)
		delete(h.seen, k)
	case reflect.Interface:
		if v.IsNil() {
			h.u64('n', 1)
			return
		}
		h.str(v.Elem().Type().String())
		h.value(v.Elem(), depth+1)
	case reflect.Slice:
		if v.IsNil() {
			h.u64('n', 2)
			return
		}
		h.u64('l', uint64(v.Len()))
		for i := 0; i < v.Len(); i++ {
			h.value(v.Index(i), depth+1)
		}
	case reflect.Array:
		h.u64('a', uint64(v.Len()))
		for i := 0; i < v.Len(); i++ {
			h.value(v.Index(i), depth+1)
		}
	case reflect.Map:
		if v.IsNil() {
			h.u64('n', 3)
			return
		}
		// order-independent: hash each entry separately, sort the entry hashes
		ents := make([]uint64, 0, v.Len())
		it := v.MapRange()
		for it.Next() {
			sub := &hasher{seen: h.seen, w: fnv.New64a()}
			sub.value(it.Key(), depth+1)
			sub.value(it.Value(), depth+1)
			ents = append(ents, sub.w.Sum64())
		}
		sort.Slice(ents, func(i, j int) bool { return ents[i] < ents[j] })
		h.u64('m', uint64(len(ents)))
		for _, e := range ents {
			h.u64('e', e)
		}
	case reflect.Struct:
		h.u64('t', uint64(v.NumField()))
		for i := 0; i < v.NumField(); i++ {
			f := v.Field(i)
			if !f.CanInterface() {
				if f.CanAddr() {
					f = reflect.NewAt(f.Type(), unsafe.Pointer(f.UnsafeAddr())).Elem()
				} else {
					// copy into an addressable value to read unexported fields
					cp := reflect.New(t).Elem()
					cp.Set(v)
					f = cp.Field(i)
					f = reflect.NewAt(f.Type(), unsafe.Pointer(f.UnsafeAddr())).Elem()
				}
			}
			h.value(f, depth+1)
		}
	case reflect.Func:
		if v.IsNil() {
			h.u64('n', 4)
		} else {
			h.u64('F', 1) // identity of a function value is not state
		}
	case reflect.Chan, reflect.UnsafePointer:
		h.u64('X', 0)
	default:
		h.u64('?', uint64(v.Kind()))
	}
}
